"""Command line of ./vf: run a profile, decide, print the verdict lines, write evidence and replays."""
from __future__ import annotations

import hashlib
import json
import os
import sys
import time
from collections import Counter
from typing import Any

from . import driver

HERE = os.path.dirname(os.path.dirname(os.path.abspath(__file__)))
KF_FILE = os.path.join(HERE, "known_findings.json")
OUT = os.environ.get("VF_OUT") or HERE  # selftest runs redirect evidence and replays away from the committed ones


def load_findings() -> list[dict]:
    if not os.path.exists(KF_FILE):
        return []
    return json.load(open(KF_FILE))["findings"]


def _replay_path(prop: str, case: dict) -> str:
    d = os.path.join(OUT, "replays", prop)
    os.makedirs(d, exist_ok=True)
    h = hashlib.sha1(json.dumps(case, sort_keys=True).encode()).hexdigest()[:12]
    return os.path.join(d, f"{h}.json")


def run_check(prop: str, tier: str) -> int:
    from . import profiles_all  # registers all profiles
    from .profiles import REGISTRY

    t0 = time.time()
    if prop not in REGISTRY:
        print(f"unknown property {prop}; have {sorted(REGISTRY)}")
        return 2
    profile = REGISTRY[prop]
    seed = int(os.environ.get("VERIF_SEED", "0"))
    jobs = int(os.environ.get("VF_JOBS", "16"))
    budget = float(os.environ.get("VERIF_BUDGET_S", "300" if tier == "quick" else "1800"))
    if tier == "quick" and os.environ.get("VF_QUICK_SAMPLE", "fixed") == "fixed":
        # The quick tier visits one fixed sample of programs, configurations and mutants (the one that was swept
        # completely on the unchanged tree); VERIF_SEED selects the instances they are solved with and nothing else.
        # The thorough tier samples programs and mutants by seed as well.  (DESIGN section 5)
        cases = profile.cases(tier, 0)
        for c in cases:
            if "inst_seed" in c:
                c["inst_seed"] = int(c["inst_seed"]) + seed
    else:
        cases = profile.cases(tier, seed)
    findings = [f for f in load_findings() if prop in f.get("properties", [])]
    for f in findings:
        for i, w in enumerate(f.get("witnesses", {}).get(prop, [])):
            w = dict(w)
            w["id"] = f"witness:{f['id']}:{i}"
            w["kf_witness"] = f["id"]
            w["prop"] = prop
            cases.insert(0, w)
    seen_ids: set = set()
    uniq = []
    for c in cases:
        if c["id"] in seen_ids:
            continue
        seen_ids.add(c["id"])
        uniq.append(c)
    cases = uniq
    results: list[tuple] = []

    def on_result(case: dict, res: dict) -> None:
        results.append((case, res))

    timeout = profile.timeout * (2 if tier == "thorough" else 1)
    run, not_run = driver.run_cases(cases, jobs=jobs, timeout=timeout, budget_s=budget, on_result=on_result)
    extra = profile.post(results)

    counters: Counter = Counter()
    verdicts: Counter = Counter()
    reasons: Counter = Counter()
    nontrivial: dict = {}
    kf_seen: Counter = Counter()
    unlisted: list[tuple] = []
    harness_errors = []
    fixed_ids = {f["id"] for f in findings if f.get("status") == "fixed"}
    open_ids = {f["id"] for f in findings if f.get("status") == "open"}
    samples = []
    blamed: Counter = Counter()
    for case, res in results:
        verdicts[res.get("verdict", "?")] += 1
        if res.get("verdict") == "inconclusive":
            reasons[res.get("reason", "?")] += 1
            if res.get("reason") == "harness-error":
                harness_errors.append((case["id"], res.get("error"), res.get("tb")))
        for k, v in (res.get("counters") or {}).items():
            counters[k] += v
        try:
            nt = res.get("verdict") != "inconclusive" and profile.nontrivial(case, res)
        except Exception:  # pylint: disable=broad-exception-caught
            nt = False
        if nt:
            sig = res.get("sig") or case["id"]
            if sig not in nontrivial:
                nontrivial[sig] = (case, res)
        for v in res.get("violations") or []:
            if v.get("property") != prop:
                continue
            b = v.get("blame") or {}
            blamed[f"{v.get('kind')}@{b.get('step') or v.get('step') or ''}"] += 1
            kfid = v.get("kf")
            if kfid and kfid in open_ids:
                kf_seen[kfid] += 1
            else:
                unlisted.append((case, res, v))
    for v in extra:
        if v.get("property") == prop:
            kfid = v.get("kf")
            if kfid and kfid in open_ids:
                kf_seen[kfid] += 1
            else:
                unlisted.append((v.get("case") or {"id": v.get("id", "post")}, {"post": True}, v))
    for sig, (case, res) in list(nontrivial.items())[:4]:
        samples.append(profile.sample(case, res))
    if not samples and results:
        samples.append(profile.sample(*results[0]))

    # ---- output lines -------------------------------------------------------------------
    for f in findings:
        if f.get("status") == "open":
            print(f"KNOWN-FINDING: property={prop} {f['id']} {f['what']} (seen {kf_seen.get(f['id'], 0)} times this run)")
    if os.environ.get("VF_TRIAGE"):
        clusters: dict = {}
        for case, res, v in unlisted:
            b = v.get("blame") or {}
            exc = v.get("exception") or {}
            key = (v.get("kind"), b.get("step") or v.get("step") or exc.get("type"), (exc.get("site") or {}).get("function"), (case.get("tag") or "").split("-")[0].split(":")[0].split("/")[0])
            clusters.setdefault(key, []).append((case, res, v))
        for key, items in sorted(clusters.items(), key=lambda kv: -len(kv[1])):
            print(f"=== {len(items)} x {key}")
            shown = set()
            for case, res, v in items:
                sig = case.get("program", "")[:80]
                if sig in shown or len(shown) >= int(os.environ.get("VF_TRIAGE_N", "2")):
                    continue
                shown.add(sig)
                b = v.get("blame") or v
                print(f"  case {case.get('id')} tag={case.get('tag')} traits={case.get('traits')} in={case.get('in')} out={case.get('out')} layout={case.get('layout')}")
                print("   program: " + (res.get("twin_program") or case.get("program", "")).strip().replace("\n", "\n            "))
                for kk in ("instance", "removed", "added", "diff", "error", "exception", "stmt", "reparsed", "reason", "name", "pred", "source", "result", "event", "missing", "extra", "which", "args", "rc", "stderr"):
                    val = v.get(kk, b.get(kk) if isinstance(b, dict) else None)
                    if val:
                        print(f"     {kk}: {json.dumps(val, default=str)[:600]}")
        unlisted_sigs = len(clusters)
        print(f"TRIAGE: {len(unlisted)} unlisted violations in {unlisted_sigs} clusters")
    written = set()
    for case, res, v in unlisted:
        if os.environ.get("VF_TRIAGE"):
            break
        path = _replay_path(prop, case)
        if path not in written:
            written.add(path)
            json.dump({"case": case, "result": res, "violation": v}, open(path, "w"), indent=1, default=str)
            print(f"VIOLATION property={prop} replay={path}")
            print(f"  kind={v.get('kind')} case={case.get('id')} blame={json.dumps(v.get('blame') or v.get('exception') or v.get('step') or '', default=str)[:300]}")
    for cid, err, tb in harness_errors[:5]:
        print(f"HARNESS-ERROR case={cid} {err}\n{tb}")
    wall = time.time() - t0
    n_nontrivial = len(nontrivial)
    evidence = {
        "property_id": prop,
        "tier": tier,
        "seed": seed,
        "level": profile.level,
        "coverage": {
            "evaluations": run,
            "distinct_nontrivial": n_nontrivial,
            "rule": profile.rule,
            "samples": samples,
            "cases_generated": len(cases),
            "cases_not_run_budget": not_run,
            "verdicts": dict(verdicts),
            "inconclusive_reasons": dict(reasons),
            "monitor_counters": dict(sorted(counters.items())),
            "violation_signatures": dict(blamed),
            "known_findings_seen": dict(kf_seen),
            "hash_seed": int(os.environ.get("VF_HASHSEED", "0")),
            "exhaustive": False,
        },
        "assumptions": profile.assumptions
        or [
            "clingo 5.8.2 grounder/solver and Model.cost/priority are the reference semantics",
            "instances are sampled from small boundary-biased pools; 'held' means on these executions only",
        ],
        "wall_s": round(wall, 2),
        "violations": len(unlisted),
    }
    os.makedirs(os.path.join(OUT, "evidence"), exist_ok=True)
    json.dump(evidence, open(os.path.join(OUT, "evidence", f"{prop}.json"), "w"), indent=1, default=str)
    print(
        f"{prop} {tier}: {run} executions ({not_run} not run), verdicts {dict(verdicts)}, distinct non-trivial {n_nontrivial}, "
        f"unlisted violations {len(unlisted)}, known findings seen {dict(kf_seen)}, {wall:.0f}s"
    )
    if reasons:
        print(f"  inconclusive reasons: {dict(reasons)}")
    if unlisted:
        return 1
    if harness_errors:
        print(f"INCONCLUSIVE property={prop} reason=harness-errors({len(harness_errors)})")
        return 3
    if n_nontrivial < 2:
        print(f"INCONCLUSIVE property={prop} reason=deciding-monitor-observed-{n_nontrivial}-nontrivial-cases")
        return 3
    return 0


def replay(path: str) -> int:
    from . import profiles_all  # noqa: F401

    data = json.load(open(path))
    case = data["case"]
    results = []
    driver.run_cases([case], jobs=1, timeout=300, on_result=lambda c, r: results.append(r))
    res = results[0]
    print(json.dumps({k: res[k] for k in res if k not in ("trace",)}, indent=1, default=str)[:6000])
    if res.get("trace"):
        print("--- stage trace ---")
        prev = None
        for st in res["trace"]:
            if st["stmts"] != prev:
                print(f"## after {st['name']} (iteration {st['iter']})")
                print("\n".join(st["stmts"]))
            prev = st["stmts"]
    return 1 if res.get("verdict") == "violated" else 0


def main(argv: list[str]) -> int:
    if not argv:
        print(__doc__)
        return 2
    cmd = argv[0]
    if cmd == "setup":
        driver.ensure_deps()
        print("setup ok")
        return 0
    if cmd in ("quick", "thorough"):
        return run_check(argv[1], cmd)
    if cmd == "replay":
        return replay(argv[1])
    if cmd == "selftest":
        from . import selftest

        return selftest.main(argv[1:])
    print(f"unknown command {cmd}")
    return 2
