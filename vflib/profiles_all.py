"""import every profile module so that they register themselves"""
from . import profiles, profiles2  # noqa: F401
