"""import every profile module so that they register themselves"""
from . import profiles  # noqa: F401
