"""Harness-side monitors attached to the imported ngo modules (DESIGN section 3).

Everything is attached by replacing class attributes / module attributes of the *imported*
repository code; no file of /repo is edited.  A RunRecord collects what the monitors saw
during one call of the real ngo.api.optimize.
"""
from __future__ import annotations

import copy
import io
import os
import sys
import traceback
from collections import Counter
from copy import deepcopy
from typing import Any, Callable, Optional

import icontract

# --------------------------------------------------------------------------------------
# exceptions raised by monitors (BaseException: ngo.math catches Exception)
# --------------------------------------------------------------------------------------


class MonitorAbort(BaseException):
    """a monitor stopped the run"""


class RepeatedState(MonitorAbort):
    pass


class BudgetExceeded(MonitorAbort):
    pass


class ContractBroken(Exception):
    """icontract error= class; never raised into ngo: contracts record and return True"""


from .traits import DEFAULT_TRAITS, TRAITS  # noqa: E402

PASS_CLASSES = {
    "cleanup": ("ngo.cleanup", "CleanupTranslator"),
    "unused": ("ngo.unused", "UnusedTranslator"),
    "duplication": ("ngo.literal_duplication", "LiteralDuplicationTranslator"),
    "symmetry": ("ngo.symmetry", "SymmetryTranslator"),
    "minmax_chains": ("ngo.minmax_aggregates", "MinMaxAggregator"),
    "sum_chains": ("ngo.sum_aggregates", "SumAggregator"),
    "math": ("ngo.math_simplification", "MathSimplification"),
    "inline": ("ngo.inline", "InlineTranslator"),
    "projection": ("ngo.projection", "ProjectionTranslator"),
}

MAX_OUTER_ITER = 64
MAX_INNER_CALLS = 5000
STEP_BUDGET = int(os.environ.get("VF_STEP_BUDGET", "60000000"))


class RunRecord:
    """what the monitors observed during one optimize call"""

    def __init__(self) -> None:
        self.stages: list[dict] = []  # {"name","iter","stmts":[str]}
        self.stage_asts: list[list] = []
        self.events: list[dict] = []
        self.exception: Optional[dict] = None
        self.contract_evals: Counter = Counter()
        self.contract_violations: list[dict] = []
        self.result: Optional[list] = None
        self.stdout: str = ""
        self.steps: int = 0
        self.outer_iterations: int = 0
        self.outer_states: list[str] = []
        self.inner_states: dict[str, list[str]] = {}
        self.inner_calls: Counter = Counter()
        self.cur_stage: str = "start"
        self.protected: frozenset = frozenset()
        self.domain_map: list[dict] = []
        self.names: list[dict] = []
        self.trace_complete: bool = False
        self.pass_changed: Counter = Counter()
        self.pass_unchanged: Counter = Counter()
        self.in_preds: list = []
        self.out_preds: list = []
        self.interface: frozenset = frozenset()

    def violate(self, contract: str, **info: Any) -> None:
        self.contract_violations.append({"contract": contract, "stage": self.cur_stage, **info})

    def brief(self) -> dict:
        return {
            "stages": [(s["name"], s["iter"], len(s["stmts"])) for s in self.stages],
            "exception": self.exception,
            "contract_violations": self.contract_violations[:5],
            "outer_iterations": self.outer_iterations,
            "steps": self.steps,
        }


CURRENT: Optional[RunRecord] = None
_INSTALLED = False
_NGO_DIR = ""
_STEP_COUNT = 0
_STEP_LIMIT = 0


def _texts(prg: Any) -> list[str]:
    return [str(s) for s in prg]


# --------------------------------------------------------------------------------------
# logical clock: PY_START + JUMP events in ngo code (sys.monitoring)
# --------------------------------------------------------------------------------------


def _install_clock() -> None:
    mon = sys.monitoring
    tool = mon.PROFILER_ID
    try:
        mon.use_tool_id(tool, "vf-clock")
    except ValueError:
        return

    def tick(code: Any, *_: Any) -> Any:
        global _STEP_COUNT
        if not code.co_filename.startswith(_NGO_DIR):
            return mon.DISABLE
        _STEP_COUNT += 1
        if _STEP_LIMIT and _STEP_COUNT > _STEP_LIMIT and CURRENT is not None:
            raise BudgetExceeded(f"logical step budget {_STEP_LIMIT} exceeded")
        return None

    mon.register_callback(tool, mon.events.PY_START, tick)
    mon.register_callback(tool, mon.events.JUMP, tick)
    mon.set_events(tool, mon.events.PY_START | mon.events.JUMP)


# --------------------------------------------------------------------------------------
# cycle detection
# --------------------------------------------------------------------------------------


def _cycle(states: list[str]) -> Optional[int]:
    """period p>=1 if the tail of the state sequence shows a proven repetition"""
    n = len(states)
    last = states[-1]
    if states.count(last) >= 3:
        idx = [i for i, s in enumerate(states) if s == last]
        return idx[-1] - idx[-2]
    for p in range(2, n // 2 + 1):
        if states[n - p :] == states[n - 2 * p : n - p]:
            return p
    return None


# --------------------------------------------------------------------------------------
# installation
# --------------------------------------------------------------------------------------


def install() -> None:
    """attach all wrappers once per process"""
    global _INSTALLED, _NGO_DIR
    if _INSTALLED:
        return
    _INSTALLED = True
    import importlib

    import ngo
    import ngo.api as api
    import ngo.dependency as dep
    import ngo.utils.globals as glb

    _NGO_DIR = os.path.dirname(os.path.abspath(ngo.__file__)) + os.sep
    want = os.environ.get("VERIF_REPO", "/repo")
    assert _NGO_DIR.startswith(os.path.abspath(want) + os.sep), f"ngo imported from {_NGO_DIR}, expected under {want}"

    # ---- stage tracer -------------------------------------------------------------
    def stage(name: str, prg_in: Any, prg_out: Any) -> None:
        rec = CURRENT
        if rec is None:
            return
        before, after = _texts(prg_in), _texts(prg_out)
        if before != after:
            rec.pass_changed[name] += 1
        else:
            rec.pass_unchanged[name] += 1
        rec.stages.append({"name": name, "iter": rec.outer_iterations, "stmts": after})
        rec.stage_asts.append([copy.deepcopy(s) for s in prg_out])  # passes edit statements in place later on

    orig_pre, orig_post, orig_exl = api.preprocess, api.postprocess, api.exline_arithmetic

    def preprocess(prg: Any) -> Any:
        rec = CURRENT
        if rec is not None:
            prg = list(prg)
            rec.cur_stage = "preprocess"
        out = orig_pre(prg)
        stage("preprocess", prg, out)
        return out

    def postprocess(prg: Any) -> Any:
        rec = CURRENT
        if rec is not None:
            prg = list(prg)
            rec.cur_stage = "postprocess"
        out = orig_post(prg)
        stage("postprocess", prg, out)
        return out

    def exline(prg: Any) -> Any:
        rec = CURRENT
        if rec is not None:
            rec.cur_stage = "exline"
        out = orig_exl(prg)
        stage("exline", prg, out)
        if rec is not None:
            rec.outer_iterations += 1
            rec.outer_states.append("\n".join(_texts(out)))
            period = _cycle(rec.outer_states)
            if period is not None:
                raise RepeatedState(f"outer loop of optimize revisits a state (period {period}) after {rec.outer_iterations} iterations")
            if rec.outer_iterations > MAX_OUTER_ITER:
                raise BudgetExceeded(f"more than {MAX_OUTER_ITER} outer iterations")
        return out

    api.preprocess, api.postprocess, api.exline_arithmetic = preprocess, postprocess, exline

    for trait, (modname, clsname) in PASS_CLASSES.items():
        mod = importlib.import_module(modname)
        cls = getattr(mod, clsname)
        # the traced function is looked up at call time, so that a counterfactual repair (vflib/repairs.py) of a whole
        # pass can be put *inside* the tracer: the recorded stage is then the repaired one
        cls._vf_inner_execute = cls.execute

        def make(trait: str, cls: Any) -> Callable:
            def execute(self: Any, prg: Any, *a: Any, **k: Any) -> Any:
                orig_exec = cls._vf_inner_execute
                rec = CURRENT
                if rec is None:
                    return orig_exec(self, prg, *a, **k)
                rec.cur_stage = trait
                rec.inner_states = {}
                before = _texts(prg)
                out = orig_exec(self, prg, *a, **k)
                after = _texts(out)
                if before != after:
                    rec.pass_changed[trait] += 1
                else:
                    rec.pass_unchanged[trait] += 1
                rec.stages.append({"name": trait, "iter": rec.outer_iterations, "stmts": after})
                rec.stage_asts.append([copy.deepcopy(s) for s in out])
                return out

            return execute

        cls.execute = make(trait, cls)
        orig_init = cls.__init__

        def make_init(trait: str, orig_init: Callable) -> Callable:
            def __init__(self: Any, *a: Any, **k: Any) -> None:
                rec = CURRENT
                if rec is not None:
                    rec.cur_stage = trait
                orig_init(self, *a, **k)

            return __init__

        cls.__init__ = make_init(trait, orig_init)

    # ---- inner-loop tracer ----------------------------------------------------------
    def inner(cls: Any, meth: str, label: str) -> None:
        orig = getattr(cls, meth)

        def wrapper(self: Any, prg: Any, *a: Any, **k: Any) -> Any:
            rec = CURRENT
            if rec is not None:
                rec.inner_calls[label] += 1
                states = rec.inner_states.setdefault(label, [])
                states.append("\n".join(_texts(prg)))
                period = _cycle(states)
                if period is not None:
                    raise RepeatedState(f"inner loop {label} revisits a state (period {period})")
                if len(states) > MAX_INNER_CALLS:
                    raise BudgetExceeded(f"inner loop {label}: more than {MAX_INNER_CALLS} iterations in one pass application")
            return orig(self, prg, *a, **k)

        setattr(cls, meth, wrapper)

    import ngo.inline as inl
    import ngo.unused as unu

    inner(unu.UnusedTranslator, "analyze_usage", "unused.loop")
    inner(inl.InlineTranslator, "replace_single_rule_for_agg", "inline.agg")
    inner(inl.InlineTranslator, "replace_single_rule_for_body", "inline.body")

    import ngo.literal_duplication as ldup

    orig_lc_process = ldup.LiteralCollector.process

    def lc_process(self: Any, unique_names: Any) -> Any:
        rec = CURRENT
        if rec is not None:
            rec.inner_calls["duplication.loop"] += 1
            if rec.inner_calls["duplication.loop"] > 20 * MAX_INNER_CALLS:
                raise BudgetExceeded("duplication loop budget")
        return orig_lc_process(self, unique_names)

    ldup.LiteralCollector.process = lc_process

    # ---- freshness contracts (C07) --------------------------------------------------
    def snap_voc(self: Any) -> frozenset:
        return frozenset(self.predicates)

    def fresh_pred(self: Any, result: Any, OLD: Any) -> bool:
        rec = CURRENT
        if rec is None:
            return True
        rec.contract_evals["fresh_predicate"] += 1
        sig = (result.name, result.arity)
        info = {"name": result.name, "arity": result.arity}
        rec.names.append({"kind": "predicate", "stage": rec.cur_stage, **info})
        if result in OLD.voc:
            rec.violate("fresh_predicate", reason="returned predicate already known to UniqueNames", **info)
        elif sig in rec.protected:
            rec.violate("fresh_predicate", reason="returned predicate is in source/IN/OUT vocabulary", **info)
        if result not in self.predicates:
            rec.violate("fresh_predicate", reason="returned predicate not recorded as taken", **info)
        return True

    for meth in ("new_predicate", "new_auxpredicate"):
        orig = getattr(glb.UniqueNames, meth)
        wrapped = icontract.snapshot(snap_voc, name="voc")(icontract.ensure(fresh_pred, error=ContractBroken)(orig))
        setattr(glb.UniqueNames, meth, wrapped)

    def snap_vars(self: Any) -> list:
        return list(self._allvars)

    def fresh_var(self: Any, var: Any, result: Any, OLD: Any) -> bool:
        rec = CURRENT
        if rec is None:
            return True
        rec.contract_evals["fresh_variable"] += 1
        if result.name == "_":
            return True
        if result in OLD.vars:
            rec.violate("fresh_variable", name=result.name, reason="returned variable already present in the statement")
        if result not in self._allvars:
            rec.violate("fresh_variable", name=result.name, reason="returned variable not recorded")
        return True

    glb.UniqueVariables.make_unique = icontract.snapshot(snap_vars, name="vars")(
        icontract.ensure(fresh_var, error=ContractBroken)(glb.UniqueVariables.make_unique)
    )

    # ---- domain predicates (C07 single purpose, C20 domain map) -----------------------
    DP = dep.DomainPredicates
    orig_add_rule = DP.add_domain_rule

    def add_domain_rule(self: Any, pred: Any, conditions: Any) -> Any:
        rec = CURRENT
        if rec is not None:
            rec.contract_evals["single_purpose"] += 1
            text = sorted(f"{h} :- {'; '.join(map(str, c))}" for h, c in conditions)
            key = (pred.name, pred.arity)
            for ev in rec.events:
                if ev["kind"] == "add_domain_rule" and ev["stage_idx"] == len(rec.stages) and ev["pred"] == list(key):
                    if ev["rules"] != text:
                        rec.violate(
                            "single_purpose",
                            name=pred.name,
                            arity=pred.arity,
                            reason="add_domain_rule called twice for one predicate with different rules in one pass application",
                            first=ev["rules"],
                            second=text,
                        )
            if key in rec.protected:
                rec.violate("fresh_predicate", name=pred.name, arity=pred.arity, reason="add_domain_rule on a source/IN/OUT predicate")
            rec.events.append({"kind": "add_domain_rule", "stage_idx": len(rec.stages), "pred": list(key), "rules": text})
        return orig_add_rule(self, pred, conditions)

    DP.add_domain_rule = add_domain_rule

    orig_create_domain = DP.create_domain

    def create_domain(self: Any, pred: Any) -> Any:
        yield from orig_create_domain(self, pred)
        rec = CURRENT
        if rec is not None:
            try:
                if self.has_domain(pred) and not self.is_static(pred):
                    d = self.domain_predicate(pred)
                    rec.domain_map.append(
                        {"kind": "dom", "stage_idx": len(rec.stages), "stage": rec.cur_stage, "pred": [pred.name, pred.arity], "dom": [d.name, d.arity]}
                    )
            except Exception:  # observer must not disturb
                pass

    DP.create_domain = create_domain

    orig_next = DP.create_next_pred_for_annotated_pred

    def create_next(self: Any, anon_pred: Any, position: int) -> Any:
        yield from orig_next(self, anon_pred, position)
        rec = CURRENT
        if rec is not None:
            try:
                pred = anon_pred.pred
                d = self.domain_predicate(pred)
                mn = self.min_anon_predicate(anon_pred, position)
                mx = self.max_anon_predicate(anon_pred, position)
                nx_ = self.next_anon_predicate(anon_pred, position)
                rec.domain_map.append(
                    {
                        "kind": "order",
                        "stage_idx": len(rec.stages),
                        "stage": rec.cur_stage,
                        "pred": [pred.name, pred.arity],
                        "annotated": list(anon_pred.annotated_positions),
                        "position": position,
                        "dom": [d.name, d.arity],
                        "min": [mn.name, mn.arity],
                        "max": [mx.name, mx.arity],
                        "next": [nx_.name, nx_.arity],
                    }
                )
            except Exception:
                pass

    DP.create_next_pred_for_annotated_pred = create_next

    orig_chain = DP.create_chain_pred_for_annotated_pred

    def create_chain(self: Any, anon_pred: Any, position: int, maximum: bool) -> Any:
        yield from orig_chain(self, anon_pred, position, maximum)
        rec = CURRENT
        if rec is not None:
            try:
                pred = anon_pred.pred
                c = self.chain_pred(anon_pred, position, maximum)
                d = self.domain_predicate(pred)
                rec.domain_map.append(
                    {
                        "kind": "chain",
                        "stage_idx": len(rec.stages),
                        "stage": rec.cur_stage,
                        "pred": [pred.name, pred.arity],
                        "annotated": list(anon_pred.annotated_positions),
                        "position": position,
                        "maximum": bool(maximum),
                        "chain": [c.name, c.arity],
                        "dom": [d.name, d.arity],
                    }
                )
            except Exception:
                pass

    DP.create_chain_pred_for_annotated_pred = create_chain

    # ---- unused: protected predicates never renamed (C07/C09) ---------------------------
    orig_new_name = unu.UnusedTranslator._new_name

    def _new_name(self: Any, orig_pred: Any, new_pred: Any) -> Any:
        rec = CURRENT
        if rec is not None:
            rec.contract_evals["unused_protected"] += 1
            if (orig_pred.name, orig_pred.arity) in rec.interface:
                rec.violate(
                    "unused_protected",
                    name=orig_pred.name,
                    arity=orig_pred.arity,
                    reason="unused renames/shrinks an input or output predicate",
                )
        return orig_new_name(self, orig_pred, new_pred)

    unu.UnusedTranslator._new_name = _new_name

    _install_clock()


# --------------------------------------------------------------------------------------
# the purity contract and the monitored call of optimize
# --------------------------------------------------------------------------------------


class _CountingStream(io.StringIO):
    pass


def _snap_arg(prg: list) -> tuple:
    return ([str(s) for s in prg], len(prg), deepcopy(prg), [id(s) for s in prg])


def _arg_untouched(prg: list, OLD: Any) -> bool:
    rec = CURRENT
    if rec is None:
        return True
    rec.contract_evals["argument_untouched"] += 1
    texts, length, copy, ids = OLD.arg
    now = [str(s) for s in prg]
    if len(prg) != length:
        rec.violate("argument_untouched", reason=f"length of the caller's list changed {length} -> {len(prg)}")
    elif now != texts:
        bad = [(a, b) for a, b in zip(texts, now) if a != b][:3]
        rec.violate("argument_untouched", reason="str() of a caller's statement changed", diff=bad)
    elif list(prg) != copy:
        rec.violate("argument_untouched", reason="caller's statements differ structurally from the deep copy taken before the call")
    elif [id(s) for s in prg] != ids:
        rec.violate("argument_untouched", reason="caller's list now holds different objects")
    return True


def _call_optimize(prg: list, inp: list, out: list, flags: dict) -> list:
    import ngo.api as api

    return api.optimize(prg, inp, out, **flags)


_contracted_optimize = icontract.snapshot(_snap_arg, name="arg")(
    icontract.ensure(_arg_untouched, error=ContractBroken)(_call_optimize)
)


def _innermost_ngo_frame(tb: Any) -> Optional[dict]:
    import linecache

    found = None
    for frame, lineno in traceback.walk_tb(tb):
        fn = frame.f_code.co_filename
        if fn.startswith(_NGO_DIR):
            found = {
                "module": fn[len(_NGO_DIR) :],
                "function": frame.f_code.co_qualname,
                "text": linecache.getline(fn, lineno).strip(),
            }
    return found


def run_optimize(prg: list, inp: list, out: list, traits: list[str], protected: Optional[set] = None) -> RunRecord:
    """call the real ngo.api.optimize under all monitors; never raises"""
    global CURRENT, _STEP_COUNT, _STEP_LIMIT
    install()
    rec = RunRecord()
    flags = {t: (t in traits) for t in TRAITS}
    rec.protected = frozenset(protected or ())
    rec.interface = frozenset((p.name, p.arity) for p in list(inp) + list(out))  # type: ignore[attr-defined]
    rec.in_preds = [(p.name, p.arity) for p in inp]
    rec.out_preds = [(p.name, p.arity) for p in out]
    rec.stages.append({"name": "source", "iter": 0, "stmts": _texts(prg)})
    rec.stage_asts.append([copy.deepcopy(s) for s in prg])
    old_stdout = sys.stdout
    stream = _CountingStream()
    CURRENT = rec
    _STEP_COUNT = 0
    _STEP_LIMIT = STEP_BUDGET
    try:
        sys.stdout = stream
        res = _contracted_optimize(prg, inp, out, flags)
        rec.result = list(res)
    except BaseException as exc:  # pylint: disable=broad-exception-caught
        if isinstance(exc, (KeyboardInterrupt, SystemExit, MemoryError)) and not isinstance(exc, MonitorAbort):
            sys.stdout = old_stdout
            CURRENT = None
            _STEP_LIMIT = 0
            raise
        rec.exception = {
            "type": type(exc).__name__,
            "monitor": isinstance(exc, MonitorAbort),
            "message": str(exc)[:300],
            "site": _innermost_ngo_frame(exc.__traceback__),
            "stage": rec.cur_stage,
        }
    finally:
        sys.stdout = old_stdout
        rec.steps = _STEP_COUNT
        _STEP_LIMIT = 0
        CURRENT = None
    rec.stdout = stream.getvalue()
    if rec.result is not None:
        rec.trace_complete = bool(rec.stages) and rec.stages[-1]["name"] == "postprocess" and rec.stages[-1]["stmts"] == _texts(rec.result)
    return rec
