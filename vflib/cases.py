"""Case generators shared by the profiles: seed corpus, declarations, AST mutants, layouts."""
from __future__ import annotations

import json
import os
import random
from typing import Any, Callable, Iterator, Optional

from clingo.ast import AST, AggregateFunction, ASTType, ComparisonOperator, Sign, Variable, parse_string
from clingo.symbol import Number
from clingo.ast import SymbolicTerm

from . import refast
from .traits import DEFAULT_TRAITS, TRAITS

HERE = os.path.dirname(os.path.dirname(os.path.abspath(__file__)))

_CORPUS: Optional[list] = None

FILE_TRAIT = {
    "test_cleanup": "cleanup",
    "test_unused": "unused",
    "test_literal_duplication": "duplication",
    "test_symmetry": "symmetry",
    "test_minmax_aggregates": "minmax_chains",
    "test_sum_aggregates": "sum_chains",
    "test_math_simplification": "math",
    "test_inline": "inline",
    "test_projection": "projection",
    "test_normalize": "normalize",
    "test_ast": "ast",
    "test_dependency": "dependency",
    "test_global": "global",
    "test_regression": "regression",
}


def parse(text: str) -> Optional[list[AST]]:
    out: list[AST] = []
    try:
        parse_string(text, out.append, logger=lambda c, m: None)
    except RuntimeError:
        return None
    return out


def corpus() -> list[dict]:
    """the 459 input programs of the pinned test-suite (committed copy), de-duplicated by text"""
    global _CORPUS
    if _CORPUS is None:
        raw = json.load(open(os.path.join(HERE, "corpus", "tests.json")))
        seen = set()
        out = []
        for r in raw:
            key = (r["program"].strip(), json.dumps(r.get("input_predicates")), json.dumps(r.get("output_predicates")))
            if key in seen:
                continue
            seen.add(key)
            if parse(r["program"]) is None:
                continue
            r = dict(r)
            r["trait"] = FILE_TRAIT.get(r["file"], "other")
            out.append(r)
        _CORPUS = out
    return _CORPUS


def corpus_for(traits: list[str]) -> list[dict]:
    return [r for r in corpus() if r["trait"] in traits]


def open_preds(text: str) -> list:
    prg = parse(text)
    return sorted(refast.open_predicates(prg)) if prg else []


def head_preds(text: str) -> list:
    prg = parse(text)
    return sorted(p for p in refast.head_predicates(prg) if not p[0].startswith("-")) if prg else []


def used_preds(text: str) -> list:
    """predicates occurring anywhere but as a positive head atom (bodies, conditions, objectives, negative heads)"""
    prg = parse(text)
    out = set()
    for stm in prg or []:
        for name, arity, neg, role in refast.occurrences(stm):
            if role == "other" and not neg:
                out.add((name, arity))
    return sorted(out)


def voc(text: str) -> list:
    prg = parse(text)
    return sorted(p for p in refast.vocabulary(prg) if not p[0].startswith("-")) if prg else []


def explicit_in(text: str, given: Optional[list] = None) -> list:
    """IN must contain every predicate without a defining rule (quantifier precondition)"""
    s = {tuple(p) for p in (given or [])} | {tuple(p) for p in open_preds(text)}
    return sorted([list(p) for p in s])


def decl_variants(rec_or_text: Any, rng: random.Random, n: int = 2, out_all: bool = True) -> list[tuple]:
    """(in, out) declaration variants for a program: the test's own, auto/auto, explicit with all heads as output,
    random output subsets, an absent predicate"""
    if isinstance(rec_or_text, str):
        text, gi, go = rec_or_text, None, None
    else:
        text, gi, go = rec_or_text["program"], rec_or_text.get("input_predicates"), rec_or_text.get("output_predicates")
    heads = [list(p) for p in head_preds(text)]
    variants: list[tuple] = []
    if gi is not None or go is not None:
        variants.append((explicit_in(text, gi), go if go is not None else heads))
    variants.append(("auto", "auto"))
    if out_all:
        variants.append((explicit_in(text, gi), heads))
    extra = []
    if heads:
        k = rng.randint(0, len(heads))
        extra.append((explicit_in(text, gi), sorted(rng.sample(heads, k))))
        extra.append((explicit_in(text, (gi or []) + [rng.choice(heads)]), heads))
    extra.append((explicit_in(text, gi), heads + [["vf_absent", 1]]))
    extra.append((explicit_in(text, gi), []))
    rng.shuffle(extra)
    seen, out = set(), []
    for v in variants + extra:
        key = json.dumps(v)
        if key not in seen:
            seen.add(key)
            out.append(v)
    return out[: max(n, 1)]


def trait_subsets(rng: random.Random, k: int) -> list[list[str]]:
    out = []
    for _ in range(k):
        out.append([t for t in TRAITS if rng.random() < 0.5])
    return out


# ----------------------------------------------------------------------------------------
# single-site AST mutants
# ----------------------------------------------------------------------------------------

_CMPS = [
    ComparisonOperator.Equal,
    ComparisonOperator.NotEqual,
    ComparisonOperator.LessThan,
    ComparisonOperator.LessEqual,
    ComparisonOperator.GreaterThan,
    ComparisonOperator.GreaterEqual,
]
_AGGS = [AggregateFunction.Count, AggregateFunction.Sum, AggregateFunction.SumPlus, AggregateFunction.Min, AggregateFunction.Max]


def _rebuild(node: AST, fn: Callable[[AST, int], Optional[AST]], counter: list) -> AST:
    idx = counter[0]
    counter[0] += 1
    rep = fn(node, idx)
    if rep is not None:
        return rep
    upd = {}
    for key in node.child_keys:
        val = getattr(node, key)
        if val is None:
            continue
        if isinstance(val, AST):
            new = _rebuild(val, fn, counter)
            if new is not val:
                upd[key] = new
        else:
            try:
                items = list(val)
            except TypeError:
                continue
            new_items = [_rebuild(v, fn, counter) if isinstance(v, AST) else v for v in items]
            if any(a is not b for a, b in zip(items, new_items)):
                upd[key] = new_items
    return node.update(**upd) if upd else node


def _sites(stm: AST) -> list[tuple]:
    """(preorder index, node) of every node of the statement"""
    out: list[tuple] = []

    def fn(node: AST, idx: int) -> None:
        out.append((idx, node))
        return None

    _rebuild(stm, fn, [0])
    return out


def statement_mutants(stm: AST) -> Iterator[tuple]:
    """(description, mutated statement) for every single-site mutation of one statement"""
    if stm.ast_type not in (ASTType.Rule, ASTType.Minimize):
        return
    sites = _sites(stm)
    varnames = sorted({n.name for _, n in sites if n.ast_type == ASTType.Variable and n.name != "_"})

    def at(idx: int, new: AST) -> AST:
        return _rebuild(stm, lambda node, i: new if i == idx else None, [0])

    for idx, node in sites:
        t = node.ast_type
        if t == ASTType.Literal and node.atom.ast_type != ASTType.BooleanConstant:
            for sign in (Sign.NoSign, Sign.Negation, Sign.DoubleNegation):
                if sign != node.sign:
                    yield (f"sign@{idx}", at(idx, node.update(sign=sign)))
        elif t == ASTType.Guard:
            for op in _CMPS:
                if op != node.comparison:
                    yield (f"cmp@{idx}", at(idx, node.update(comparison=op)))
        elif t == ASTType.Variable:
            for other in varnames + ["_"]:
                if other != node.name:
                    yield (f"var@{idx}:{other}", at(idx, Variable(node.location, other)))
        elif t == ASTType.SymbolicTerm and str(node.symbol).lstrip("-").isdigit():
            cur = int(str(node.symbol))
            for val in (-1, 0, 1, 2, 3):
                if val != cur:
                    yield (f"int@{idx}:{val}", at(idx, SymbolicTerm(node.location, Number(val))))
        elif t in (ASTType.BodyAggregate, ASTType.HeadAggregate):
            for f in _AGGS:
                if f != node.function:
                    yield (f"agg@{idx}", at(idx, node.update(function=f)))
    body = list(stm.body)
    for i in range(len(body)):
        yield (f"drop@{i}", stm.update(body=body[:i] + body[i + 1 :]))


def program_mutants(text: str, limit: Optional[int] = None, rng: Optional[random.Random] = None) -> list[tuple]:
    """(description, mutated program text); includes 'duplicate a rule'"""
    prg = parse(text)
    if not prg:
        return []
    out: list[tuple] = []
    stmts = [str(s) for s in prg]
    for si, stm in enumerate(prg):
        for desc, new in statement_mutants(stm):
            try:
                new_text = str(new)
            except RuntimeError:
                continue
            if new_text == stmts[si]:
                continue
            out.append((f"s{si}:{desc}", "\n".join(stmts[:si] + [new_text] + stmts[si + 1 :])))
        if stm.ast_type == ASTType.Rule:
            out.append((f"s{si}:dup", "\n".join(stmts[: si + 1] + [stmts[si]] + stmts[si + 1 :])))
    # de-duplicate by text
    seen, uniq = set(), []
    for d, t in out:
        if t not in seen:
            seen.add(t)
            uniq.append((d, t))
    if limit is not None and len(uniq) > limit:
        rng = rng or random.Random(0)
        uniq = rng.sample(uniq, limit)
    return uniq


def only(trait: str) -> list[str]:
    return [trait]


ALL = list(TRAITS)
DEFAULT = list(DEFAULT_TRAITS)
NONE: list[str] = []
