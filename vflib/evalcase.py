"""Worker-side evaluation of one case: run the real code under the monitors, apply the deciding checkers."""
from __future__ import annotations

import os
import subprocess
import sys
import time
from collections import Counter
from typing import Any

from . import checks, monitors, oracle, refast


def _violation(prop: str, kind: str, **detail: Any) -> dict:
    return {"property": prop, "kind": kind, **detail}


def evaluate(case: dict) -> dict:
    t0 = time.time()
    kind = case.get("kind", "opt")
    try:
        if kind == "opt":
            res = eval_opt(case)
        elif kind == "cli":
            from . import evalcli

            res = evalcli.eval_cli(case)
        elif kind == "history":
            from . import evalcli

            res = evalcli.eval_history(case)
        elif kind == "detect":
            res = eval_detect(case)
        else:
            res = {"verdict": "inconclusive", "reason": f"unknown kind {kind}"}
    except monitors.MonitorAbort as exc:  # should not escape run_optimize
        res = {"verdict": "inconclusive", "reason": f"monitor abort escaped: {exc}"}
    res.setdefault("id", case.get("id"))
    res["wall"] = round(time.time() - t0, 3)
    return res


def eval_detect(case: dict) -> dict:
    """C18: reference collector against auto_detect_input/_output on the raw parse"""
    ctx = checks.Ctx(case)
    if not ctx.parse_ok:
        return {"verdict": "inconclusive", "reason": "source-does-not-parse"}
    if refast.has_classical_negation(ctx.source):
        return {"verdict": "inconclusive", "reason": "classical-negation-outside-quantifier"}
    try:
        found = checks.check_c18(ctx)
    except Exception as exc:  # pylint: disable=broad-exception-caught
        found = [{"kind": "auto-detect-raises", "error": f"{type(exc).__name__}: {exc}"[:200]}]
    viol = [_violation("C18", f.pop("kind"), **f) for f in found]
    u = refast.open_predicates(ctx.source)
    roles = Counter()
    for stm in ctx.source:
        for occ in refast.occurrences(stm):
            roles[occ[3]] += 1
    return {
        "verdict": "violated" if viol else "held",
        "violations": viol,
        "counters": dict(ctx.counters),
        "nontrivial": bool(u) or any(s.ast_type.name.startswith("Show") for s in ctx.source),
        "sig": checks.digest(ctx.source_text),
        "info": {"open": sorted(map(list, u)), "occurrences": dict(roles)},
    }


def build_twin(case: dict) -> dict:
    """collision-seeking twin (DESIGN 9.7): optimise the neutral program, harvest what ngo invented, and build the
    program whose *source* already uses exactly those names"""
    from clingo.ast import ASTType, Variable

    neutral = checks.Ctx({**case, "twin": None})
    if not neutral.parse_ok:
        return case
    neutral.declare()
    rec = neutral.run()
    if rec.result is None:
        return case
    kind = case["twin"]
    new = dict(case)
    new["twin"] = None
    new["twin_of"] = case["id"]
    if kind == "decoy":
        invented = set(refast.vocabulary(rec.result)) - set(neutral.voc_source)
        for stage in rec.stage_asts:
            invented |= set(refast.vocabulary(stage)) - set(neutral.voc_source)
        invented |= {(n["name"], n["arity"]) for n in rec.names if n["kind"] == "predicate"} - set(neutral.voc_source)
        invented = {p for p in invented if not p[0].startswith("-")}
        if not invented:
            return case
        facts = []
        for name, arity in sorted(invented):
            facts.append(f"{name}({','.join(['vfd'] * arity)})." if arity else f"{name}.")
        new["program"] = case["program"].rstrip() + "\n" + "\n".join(facts) + "\n"
        out = case["out"] if case["out"] != "auto" else [[p.name, p.arity] for p in neutral.out]
        new["out"] = [list(p) for p in out] + [list(p) for p in sorted(invented)]
        if case["in"] == "auto":
            new["in"] = [[p.name, p.arity] for p in neutral.inp]
        new["harvested"] = [list(p) for p in sorted(invented)]
    elif kind == "vars":
        src_vars = set()
        for stm in neutral.source:
            src_vars.update(refast.variables(stm))
        harvested: list[str] = []
        for stage in rec.stage_asts:
            for stm in stage:
                for v in refast.variables(stm):
                    if v not in src_vars and v != "_" and v not in harvested:
                        harvested.append(v)
        if not harvested:
            return case
        stmts = []
        for stm in neutral.source:
            names = sorted({v for v in refast.variables(stm) if v != "_"})
            # avoid merging two source variables
            targets = [h for h in harvested if h not in names] or harvested
            if len(names) > len(targets):
                stmts.append(str(stm))
                continue
            ren = dict(zip(names, targets))

            def rn(node, ren=ren):
                upd = {}
                for key in node.child_keys:
                    val = getattr(node, key)
                    if val is None:
                        continue
                    if hasattr(val, "ast_type"):
                        upd[key] = rn(val)
                    else:
                        try:
                            upd[key] = [rn(x) if hasattr(x, "ast_type") else x for x in val]
                        except TypeError:
                            pass
                if node.ast_type == ASTType.Variable and node.name in ren:
                    return Variable(node.location, ren[node.name])
                return node.update(**upd) if upd else node

            stmts.append(str(rn(stm)))
        new["program"] = "\n".join(s for s in stmts if s != "#program base.") + "\n"
        new["harvested"] = harvested
    return new


def eval_opt(case: dict) -> dict:
    prop = case["prop"]
    want = set(case["checks"])
    twin_info = None
    if case.get("twin"):
        try:
            twinned = build_twin(case)
        except Exception as exc:  # pylint: disable=broad-exception-caught
            return {"verdict": "inconclusive", "reason": "twin-construction-failed", "error": str(exc)[:200]}
        if twinned is case:
            return {"verdict": "inconclusive", "reason": "nothing-invented-no-twin"}
        case = twinned
        twin_info = {"program": case["program"], "harvested": case.get("harvested")}
    ctx = checks.Ctx(case)
    if not ctx.parse_ok:
        return {"verdict": "inconclusive", "reason": "source-does-not-parse"}
    try:
        ctx.declare()
    except Exception as exc:  # pylint: disable=broad-exception-caught
        v = _violation("C03", "exception", exception={"type": type(exc).__name__, "message": str(exc)[:200], "stage": "auto_detect"})
        return {"verdict": "violated" if "c03" in want else "inconclusive", "violations": [v] if "c03" in want else [], "reason": "auto-detect-raises"}
    if not ctx.check_safe():
        return {"verdict": "inconclusive", "reason": "source-unsafe", "detail": ctx.safe_detail}
    # quantifier precondition: IN contains every predicate without a defining rule
    if not ctx.auto_in and not (ctx.open <= ctx.in_set) and not case.get("allow_partial_in"):
        return {"verdict": "inconclusive", "reason": "declaration-misses-open-predicate"}
    # the equivalence properties quantify over the fragment ngo targets; theory atoms, #script and classical negation
    # are outside of it (C03, C07 and C18 still apply to such programs)
    outside = _outside_fragment(ctx)
    if outside:
        want -= {"equiv", "stepwise", "c04", "c20", "c09"}
        if not want - {"purity", "stdout"}:
            return {"verdict": "inconclusive", "reason": f"outside-fragment:{outside}"}
    rec = ctx.run()
    viol: list[dict] = []
    info: dict = {"run": rec.brief()}
    changed = sorted(p for p, c in rec.pass_changed.items() if c and p not in ("preprocess", "postprocess", "exline"))
    counters = ctx.counters
    counters["executions"] += 1
    for p, c in rec.pass_changed.items():
        counters[f"pass_changed:{p}"] += c
    for p, c in rec.pass_unchanged.items():
        counters[f"pass_unchanged:{p}"] += c
    for p, c in rec.contract_evals.items():
        counters[f"contract_evals:{p}"] += c
    counters["steps"] += rec.steps
    counters["outer_iterations"] += rec.outer_iterations
    for k, c in rec.inner_calls.items():
        counters[f"inner_calls:{k}"] += c

    # ---- C03: exceptions, repeated states, budgets ---------------------------------------
    if rec.exception is not None:
        if "c03" in want:
            exc = rec.exception
            kind = "exception"
            if exc["type"] == "RepeatedState":
                kind = "repeated-state"
            elif exc["type"] == "BudgetExceeded":
                kind = "budget-exceeded"
            viol.append(_violation("C03", kind, exception=exc, trace=[(s["name"], s["iter"], len(s["stmts"])) for s in rec.stages][-12:]))
        else:
            return {
                "verdict": "inconclusive",
                "reason": "optimize-raised",
                "exception": rec.exception,
                "counters": dict(counters),
                "changed": changed,
            }
    # ---- C17 argument immutability, C19 stdout guard (evaluated on every run) -----------
    if "purity" in want:
        for v in rec.contract_violations:
            if v["contract"] == "argument_untouched":
                viol.append(_violation("C17", "argument-mutated", **{k: v[k] for k in v if k != "contract"}))
    if "stdout" in want and rec.stdout:
        viol.append(_violation("C19", "optimize-writes-stdout", text=rec.stdout[:200]))
    if rec.result is not None:
        if not rec.trace_complete:
            counters["trace_incomplete"] += 1
        # ---- equivalence ----------------------------------------------------------------
        if "equiv" in want:
            mode = case["mode"]
            for f in checks.check_equiv(ctx, mode):
                k = f.pop("kind")
                if rec.trace_complete:
                    try:
                        f["blame"] = checks.blame(ctx, mode, f["instance"])
                    except Exception as exc:  # pylint: disable=broad-exception-caught
                        f["blame"] = {"step": "unknown", "error": str(exc)[:100]}
                viol.append(_violation(prop, k, **f))
        if "stepwise" in want and rec.trace_complete:
            for f in checks.check_stepwise(ctx, case["mode"]):
                k = f.pop("kind")
                viol.append(_violation(prop, k, **f))
        if "c04" in want:
            for f in checks.check_c04(ctx):
                k = f.pop("kind")
                if k.endswith("-load-fails") and rec.trace_complete and "blame" not in f:
                    try:
                        f["blame"] = checks.blame(ctx, {"kind": "set", "voc": "source", "cost": False}, f["instance"], only_unsafe=True)
                    except Exception as exc:  # pylint: disable=broad-exception-caught
                        f["blame"] = {"step": "unknown", "error": str(exc)[:100]}
                viol.append(_violation("C04", k, **f))
        if "c07" in want:
            for f in checks.check_c07_structure(ctx):
                viol.append(_violation("C07", f.pop("kind"), **f))
        if "scope" in want and rec.trace_complete:
            for f in checks.check_scope_preservation(ctx):
                k = f.pop("kind")
                if k == "local-variable-captured":
                    viol.append(_violation("C07", k, **f))
                elif case["prop"] in ("C10", "C16", "C04"):
                    viol.append(_violation(case["prop"], k, **f))
        if "c09" in want:
            for v in rec.contract_violations:
                if v["contract"] == "unused_protected":
                    viol.append(_violation("C09", "protected-predicate-shrunk", **{k: v[k] for k in v if k != "contract"}))
            viol.extend(_violation("C09", f.pop("kind"), **f) for f in _c09_arity(ctx))
        if "c20" in want:
            for f in checks.check_c20(ctx):
                viol.append(_violation("C20", f.pop("kind"), **f))
            info["domain_map"] = rec.domain_map[:6]
    # classification against the committed known findings
    if viol:
        from . import kf

        for v in viol:
            v["kf"] = kf.classify(ctx, case, v)
        viol.sort(key=lambda v: v["kf"] is not None)  # unlisted first: the reported list is truncated
    verdict = "held"
    if viol:
        verdict = "violated"
    res = {
        "verdict": verdict,
        "violations": viol if case.get("_no_kf") else viol[:6],  # counterfactual re-runs need every instance
        "n_violations": len(viol),
        "counters": dict(counters),
        "changed": changed,
        "invented": len(rec.names),
        "domain_events": len(rec.domain_map),
        "sig": checks.digest(ctx.source_text + "|" + ",".join(case["traits"]) + "|" + str(sorted(ctx.in_set)) + str(sorted(ctx.out_set))),
        "out_digest": checks.digest(ctx.result_text) if rec.result is not None else None,
        "info": info,
    }
    if twin_info:
        res["info"]["twin"] = twin_info
        res["twin_program"] = twin_info["program"]
    if case.get("want_output") and rec.result is not None:
        res["output"] = ctx.result_text
    if case.get("want_names"):
        res["names"] = rec.names
    if viol or case.get("want_trace"):
        res["trace"] = rec.stages
        res["source"] = ctx.text
        res["result"] = ctx.result_text if rec.result is not None else None
    return res


def _outside_fragment(ctx: checks.Ctx) -> str:
    from clingo.ast import ASTType

    for stm in ctx.source:
        if stm.ast_type in (ASTType.TheoryDefinition, ASTType.Script):
            return "theory-or-script"
        for node in refast.walk(stm):
            if node.ast_type == ASTType.TheoryAtom:
                return "theory-or-script"
    if refast.has_classical_negation(ctx.source):
        return "classical-negation"
    # an anonymous variable in a head atom: clingo derives a hidden projection atom (#p_h(#p,..)) instead of an atom
    # of the predicate, so "the atoms of h" in an answer set are not what the rule reads like
    for stm in ctx.source:
        if stm.ast_type != ASTType.Rule:
            continue
        head = stm.head
        lits = []
        if head.ast_type == ASTType.Literal:
            lits.append(head)
        elif head.ast_type in (ASTType.Disjunction, ASTType.Aggregate):
            lits.extend(e.literal for e in head.elements)
        elif head.ast_type == ASTType.HeadAggregate:
            lits.extend(e.condition.literal for e in head.elements)
        for lit in lits:
            if any(n.ast_type == ASTType.Variable and n.name == "_" for n in refast.walk(lit)):
                return "anonymous-variable-in-head"
    return ""


def _c09_arity(ctx: checks.Ctx) -> list[dict]:
    """input/output/#show/#project predicates keep all their arguments: every occurrence in the result has the declared arity"""
    rec = ctx.rec
    assert rec is not None and rec.result is not None
    out = []
    protected = set(ctx.in_set) | set(ctx.out_set)
    for stm in ctx.source:
        if stm.ast_type.name in ("ShowSignature", "ProjectSignature"):
            protected.add((stm.name, stm.arity))
    res_voc = refast.vocabulary(rec.result)
    src_voc = ctx.voc_source
    names_res: dict = {}
    for n, a in res_voc:
        names_res.setdefault(n, set()).add(a)
    for n, a in sorted(protected):
        if (n, a) in src_voc and (n, a) not in res_voc:
            # the predicate vanished: fine only if no other arity of the same name appeared instead
            src_ar = {x for (m, x) in src_voc if m == n}
            new_ar = names_res.get(n, set()) - src_ar
            if new_ar:
                out.append({"kind": "protected-predicate-changed-arity", "pred": [n, a], "new_arities": sorted(new_ar)})
    ctx.counters["c09_protected_checked"] += len(protected)
    return out
