"""Grid for the `math` trait (ngo/math_simplification.py, property C14).

Side conditions spanned (firing side and near miss of each):
* cost gate (the new body is only taken if #aggregates or #comparisons drops): auxiliary variable defined
  by `Y = T(X)` and compared afterwards (fires) vs. a single comparison (must stay);
* `remove_unneeded_formulas` (a variable that occurs once and is not needed elsewhere lets its formula
  vanish): always solvable relations `X = Y+3`, `X = -Y` vs. relations that are only sometimes solvable
  over the integers `X = Y*3`, `X+1 = 2*Y`, `X = n*Y`; variable once vs. needed by head / second
  comparison / other literal / conditional literal / choice head;
* terms sympy cannot treat as polynomials `/`, `\\`, `|.|`, `**`, `#sup`, intervals, symbolic constants
  vs. `+ - *` and `#const` numbers;
* the six operators and the three signs of comparisons and of aggregate literals (negated operator,
  `not not` kept, negated two sided guard refused, sign mix of merged aggregates refused unless the
  statement is a constraint / weak constraint);
* aggregate functions: #sum/#sum+/#count are merged into one #sum (multiset marker `__agg(i)`,
  non-negativity of #sum+ with weights of both signs), #min/#max must refuse unless no arithmetic is needed;
* one aggregate: guard merging (`compress_relations`/`combine`: lcm of coefficients, flipped operators,
  a bound that is 0 or has a term the other bound lacks), two sided guards, non-linear use of the
  value, value needed by head;
* two/three aggregates with disjoint / overlapping / identical tuples, combined by `X+Y=2`, `X-Y>0`, `2*X=Y`..;
* assigned but never used `N = #agg{..}` in recursive and non-recursive definitions;
* variables of a removed assignment that are used inside another aggregate's condition;
* the same shapes in `:~` statements where weight / priority / tuple need the variables.
"""
import itertools

OPS = ["=", "!=", "<", "<=", ">", ">="]
SIGNS = ["", "not ", "not not "]
CHOICE = "{ sel(V) } :- p(V)."


def _agg(fun: str, elems: str) -> str:
    return f"#{fun} {{ {elems} }}"


def programs():
    out = []

    def add(tag, text, inn=None, outp=None):
        text = text.strip()
        if "sel(" in text and CHOICE not in text:
            text = CHOICE + "\n" + text  # aggregate over chosen atoms: one instance gives many sums
        rec = {"program": text + "\n", "tag": tag}
        if inn is not None:
            rec["in"] = inn
        if outp is not None:
            rec["out"] = outp
        out.append(rec)

    # ------------------------------------------------------------------ A: comparisons only
    # A1 auxiliary variable defined by a term and compared afterwards: elimination of Y
    terms = ["X+1", "2*X", "X*X", "X/2", "X\\2", "|X|", "X**2", "-X"]
    for t in terms:
        add("cmp-elim", f"a(X) :- p(X), Y = {t}, Y < 4.")
    for t in ["2*X", "X*X", "X/2"]:
        add("cmp-elim", f"a(X) :- p(X), Y = {t}, Y = 4.")
    for t in ["2*X", "X\\2"]:
        add("cmp-elim", f"a(X) :- p(X), Y = {t}, Y != 1.")
    for sign, op in [("not ", "<"), ("not ", "="), ("not not ", "<"), ("not not ", ">=")]:
        add("cmp-elim-sign", f"a(X) :- p(X), Y = 2*X, {sign}Y {op} 4.")
    add("cmp-elim-sign", "a(X) :- p(X), not Y != 2*X, Y < 4.")

    # A2 relation whose variable occurs once: solvable always / only sometimes over the integers
    forms = ["X = Y*3", "Y*3 = X", "X = Y*3+1", "X+1 = 2*Y", "X = Y+3", "X = -Y"]
    for f in forms:
        add("cmp-once", f"a(X) :- p(X), {f}.")
    add("cmp-once", "a :- b(X), X = Y*3.")
    add("cmp-once", "a :- p(X), X = 3-Y.")
    for f in ["X = Y*3", "X+1 = 2*Y", "X = Y+3"]:
        add("cmp-once-needed-head", f"a(Y) :- p(X), {f}.")
        add("cmp-once-second-cmp", f"a(X) :- p(X), {f}, Y > 0.")
    for f in ["X = Y*3", "X = Y+3"]:
        add("cmp-once-needed-lit", f"a(X) :- p(X), {f}, r(Y).")
    add("cmp-once", "#const n = 3.\na(X) :- p(X), X = Y*n.")
    add("cmp-once", "a(X) :- p(X), not X != Y*3.")
    add("cmp-once", "a(X,Z) :- p(X), X = 2*Y, r(Z), Z = 3*W.")
    add("cmp-once", "a(X) :- p(X), X = 2*Y, Y = Z+1.")
    add("cmp-once", "a(X) :- q(X,Z), X = 2*Y, Z = 3*Y.")

    # A3 two bound variables, one comparison (cost gate: must not fire) and two comparisons (fires)
    for op in ["=", "!=", "<", ">="]:
        add("cmp-single", f"a(X,Y) :- q(X,Y), X {op} 2*Y.")
    for rel in ["X*Y = 4", "X/2 = Y", "X\\2 = Y", "|X| = Y", "not X*Y = 4"]:
        add("cmp-single", f"a(X,Y) :- q(X,Y), {rel}.")
    for t, rel in [("X+Y", "Z > 2"), ("X*Y", "Z > 2"), ("X-Y", "not Z != 2"), ("X*Y", "not Z != 2")]:
        add("cmp-two", f"a(X,Y) :- q(X,Y), Z = {t}, {rel}.")
    add("cmp-two", "a(X,Y) :- q(X,Y), Z = X/Y, Z > 0.")
    add("cmp-two", "a(X,Y) :- q(X,Y), Z = X\\3, Z = Y.")

    # constant comparisons, chains, #const symbols, things sympy must leave alone
    add("cmp-const", "f(X) :- p(X), X <= 0 < 2.")
    add("cmp-const", "f(X) :- p(X), X <= 2 < 0.")
    add("cmp-const", "f(X) :- p(X), 1 < 2.")
    add("cmp-const", "f(X) :- p(X), not 3 < 2.")
    add("cmp-const", "f(X) :- p(X), not not 3 < 2.")
    add("cmp-const", "#const n = 3.\nf(X) :- p(X), n > 2.")
    add("cmp-const", "#const n = 3.\nf(X) :- p(X), X < n, n < 5.")
    add("cmp-const", "#const n = 3.\nf(X) :- p(X), Y = X*n, Y > 4.")
    add("cmp-const", "#const n = 3.\nf(X) :- p(X), Y = X+n, Y != 4, n != 4.")
    add("cmp-const", "f(X,Y,Z) :- q(X,Y), r(Z), X < Y < Z.")
    add("cmp-symbolic", "a(X) :- p(X), Y = c, X < Y.")
    add("cmp-symbolic", "a(X) :- p(X), Y = X+1, Y < c.")
    add("cmp-refuse", "a(X) :- p(X), Y = X+1, Y < #sup.")
    add("cmp-refuse", "a(X) :- X = 1..3, Y = X*2, Y > 2.")
    # who needs the variable: choice head, disjunction, conditional literal
    add("cmp-needed", "{ a(X,Y) : r(Y) } :- p(X), Z = X+1, Z > 1.")
    add("cmp-needed", "{ a(Z) } :- p(X), Z = X+1, Z > 1.")
    add("cmp-needed", "a(Z) ; b(X) :- p(X), Z = X+1, Z > 1.")
    add("cmp-needed", "a(X) :- p(X), Y = X+1, r(Z) : q(Y,Z).")
    add("cmp-needed", "a(X) :- p(X), Y = X+1, Y > 1, r(Z) : q(X,Z).")

    # A4 three comparisons, auxiliary W in all of them
    for (o1, o2), sign in zip([(">", "!="), ("<=", ">="), ("=", "<"), ("!=", "<="), ("<", ">=")], SIGNS * 2):
        add("cmp-three", f"a(X,Y,Z) :- p(X), q(Y,Z), W = X+Y, W {o1} Z, {sign}W {o2} 3.")
    add("cmp-three", "a(X,Y,Z) :- p(X), q(Y,Z), W = X*Y, W > Z, W != 3.")

    # ------------------------------------------------------------------ B: one aggregate
    el = "V : p(V)"
    for fun, ops in [("sum", OPS), ("sum+", ["=", "<", ">="]), ("count", ["=", "<", ">="]), ("min", ["<", "="]), ("max", [">", "!="])]:
        for op in ops:
            add(f"agg1-guard-{fun}", f"a :- X = {_agg(fun, el)}, X {op} 2.")
    add("agg1-guard-max", f"a :- X = {_agg('max', el)}, X > 0.")
    add("agg1-guard-min", f"a :- X = {_agg('min', el)}, X != 0.")
    add("agg1-guard-max", f"a :- X = {_agg('max', el)}, 2*X > 0.")
    add("agg1-guard-count", f"{CHOICE}\na :- X = {{ sel(V) }}, X > 1.")
    # non-negativity: weights of both signs inside #sum+, bounds at and below zero
    for op, c in [("<", 0), ("<", -1), (">=", -1), ("=", -1)]:
        add("agg1-nonneg", f"a :- X = {_agg('sum+', 'V-2,V : p(V)')}, X {op} {c}.")
    for op in ["<", ">"]:
        add("agg1-nonneg", f"a(Y) :- r(Y), X = {_agg('sum+', 'V-2,V : p(V)')}, X+Y {op} 1.")
        add("agg1-nonneg", f"a(Y) :- r(Y), X = {_agg('count', 'V : p(V)')}, X+Y {op} 1.")

    # signs of the aggregate literal
    for sign, fun, op in itertools.product(SIGNS[1:], ["sum", "max"], ["=", "<"]):
        add("agg1-sign", f"{CHOICE}\na(Y) :- r(Y), {sign}X {op} {_agg(fun, 'V : sel(V)')}, X = Y+1.")
    for sign in SIGNS[1:]:
        add("agg1-sign", f"{CHOICE}\na(Y) :- r(Y), {sign}X < {_agg('sum+', 'V-2,V : sel(V)')}, X = Y+1.")
    for sign, op in itertools.product(SIGNS[1:], ["=", "<"]):
        add("agg1-sign-constraint", f"{CHOICE}\n:- r(Y), {sign}X {op} {_agg('sum', 'V : sel(V)')}, X = Y+1.")
    add("agg1-sign", f"{CHOICE}\na(Y) :- r(Y), not Y < {_agg('sum', 'V : sel(V)')}.")
    add("agg1-sign", f"{CHOICE}\na(Y) :- r(Y), not X = {_agg('sum', 'V : sel(V)')}, X = 2*Y.")
    add("agg1-sign", f"{CHOICE}\na(Y) :- r(Y), not not X = {_agg('sum', 'V : sel(V)')}, 2*X = Y.")

    # non-linear / not always solvable use of the value
    s = _agg("sum", "V : sel(V)")
    sp = _agg("sum+", "V : sel(V)")
    for rel in ["X = 2*Y", "2*X = Y", "2*X = 3*Y", "X*Y = 4", "X/2 = Y", "X\\2 = Y", "|X| = Y", "X = Y*Y"]:
        add("agg1-nonlin", f"a(Y) :- r(Y), X = {s}, {rel}.")
    for rel in ["X = 2*Y", "X = Y+1", "2*X = Y", "X*X = 4", "X/2 = 1", "X = 2*Y+1"]:
        add("agg1-nonlin-once", f"a :- X = {s}, {rel}.")
    add("agg1-nonlin", f"a(Y) :- r(Y), X = {sp}, X = 2*Y.")
    add("agg1-nonlin", f"a(Y) :- r(Y), X = {sp}, X*Y = 4.")

    # value needed by the head
    add("agg1-head", f"a(X) :- X = {s}, X > 1.")
    add("agg1-head", f"a(Y) :- Y = X+1, X = {s}.")
    add("agg1-head", f"a(Y) :- X = {s}, Y = 2*X.")
    add("agg1-head", f"a(Y) :- X = {s}, X = 2*Y.")
    add("agg1-head", f"a(X,Y) :- X = {s}, Y = X*X.")
    add("agg1-head", f"a(Y) :- X = {sp}, Y = X-3, Y < 0.")
    add("agg1-head", "#const n = 3.\n" + f"a(Y) :- X = {s}, Y = X*n, X < n.")

    # two sided guards and guard merging
    add("agg1-two-sided", f"a :- 1 < {s} < 4.")
    add("agg1-two-sided", f"a :- not 1 < {s} < 4.")
    add("agg1-two-sided", f"a :- {s} < 4.")
    add("agg1-two-sided", f"a(Y) :- r(Y), Y < {s} < Y+3.")
    add("agg1-no-guard", f"a :- {s}.")  # body aggregate without any guard (to_sympy assumes a left guard)
    add("agg1-no-guard", f"a :- {_agg('count', 'V : sel(V)')} 2.")
    add("agg1-two-sided", f"a :- X = {s} < 4, X > 1.")
    add("agg1-two-sided", f"a :- X = {s} < 4, not X <= 1.")
    add("agg1-two-sided", f"a(Y) :- r(Y), 1 < {s} < Z, Z = Y+3.")
    add("agg1-two-sided", f"a(Y) :- r(Y), not 1 < {s} < Z, Z = Y+3.")
    add("agg1-two-sided", f"a(Y) :- r(Y), Z <= {sp} <= Y, Z = Y-2.")
    for o1, o2 in [("<", ">"), ("<=", "!="), (">=", "<=")]:
        add("agg1-compress", f"a :- X = {s}, X {o1} 4, X {o2} 1.")
    add("agg1-compress", f"a :- X = {s}, 2*X < 7, 3*X > 2.")
    add("agg1-compress", f"a :- X = {s}, -X < 2, X < 4.")
    add("agg1-compress", f"a :- X = {s}, -2*X <= 3, 3*X != 6.")
    add("agg1-compress", f"a(Y) :- r(Y), X = {s}, X+Y < 3, X+2*Y > 1.")
    add("agg1-compress", f"a(Y) :- r(Y), X = {s}, X-Y <= 3, 2*X >= Y.")
    add("agg1-compress", f"a :- X = {s}, 1 < X, X < 4, X != 2.")
    # one bound is zero / has a term the other bound lacks
    add("agg1-compress-zero", f"a :- X = {s}, X < 4, X > 0.")
    add("agg1-compress-zero", f"a :- X = {s}, 0 < X, X < 4.")
    add("agg1-compress-zero", f"a :- X = {s}, 2*X <= 6, 4*X >= 0.")
    add("agg1-compress-zero", f"a :- X = {s}, X != 3, X != 0.")
    add("agg1-compress-zero", f"a :- X = {sp}, 2*X < 7, -X < 0.")
    add("agg1-compress-zero", f"a(Y) :- r(Y), X = {s}, X < Y, X > 0.")
    add("agg1-compress-zero", f"a(Y) :- r(Y), X = {s}, X < Y, X > 1.")
    add("agg1-compress-zero", f"a(Y) :- r(Y), X = {s}, X+Y < 3, X > 0.")
    add("agg1-compress-zero", f"a(Y) :- r(Y), X = {s}, X < 3, X+Y > 0.")
    add("agg1-compress-zero", f"a :- X = {_agg('count', 'V : p(V)')}, X < 3, X > 0.")

    # ------------------------------------------------------------------ C: two aggregates
    rels = ["X+Y = 2", "X-Y > 0", "2*X = Y", "X != Y"]
    for f1, f2 in [("sum", "sum"), ("sum+", "sum+"), ("count", "count"), ("sum", "sum+"), ("sum+", "count"), ("count", "sum")]:
        for i, rel in enumerate(rels):
            if (f1, f2) != ("sum", "sum") and i == 3:
                continue
            add(f"agg2-merge-{f1}-{f2}", f"a :- X = {_agg(f1, 'V,W : q(V,W)')}, Y = {_agg(f2, 'V : sel(V)')}, {rel}.")
    for f1, f2 in [("max", "sum"), ("max", "min"), ("count", "max")]:
        add("agg2-minmax", f"a :- X = {_agg(f1, 'V,W : q(V,W)')}, Y = {_agg(f2, 'V : p(V)')}, X-Y > 0.")
    add("agg2-minmax", f"a :- X = {_agg('min', 'V : p(V)')}, Y = {_agg('min', 'V : r(V)')}, X = Y.")
    add("agg2-nonlin", f"a :- X = {_agg('sum', 'V,W : q(V,W)')}, Y = {_agg('sum', 'V : p(V)')}, X*Y = 2.")
    add("agg2-nonlin", f"a(Z) :- r(Z), X = {_agg('sum', 'V,W : q(V,W)')}, Y = {_agg('sum', 'V : p(V)')}, Z = X*Y.")
    add("agg2-nonlin", f"a(Z) :- r(Z), X = {_agg('sum', 'V,W : q(V,W)')}, Y = {_agg('sum', 'V : p(V)')}, X+Y = 2*Z.")
    add("agg2-nonlin", f"a(Z) :- r(Z), X = {_agg('sum', 'V,W : q(V,W)')}, Y = {_agg('sum', 'V : p(V)')}, X+Y = Z/2.")
    # overlapping / identical tuples: multiset semantics of the merged aggregate
    for f1, f2 in [("sum", "sum"), ("sum", "count")]:
        add("agg2-overlap", f"a :- X = {_agg(f1, 'V : p(V)')}, Y = {_agg(f2, 'V : p(V), V > 1')}, X = Y.")
        add("agg2-overlap", f"a :- X = {_agg(f1, 'V : p(V)')}, Y = {_agg(f2, 'V : p(V)')}, X+Y > 3.")
    add("agg2-overlap", f"a :- X = {_agg('sum', 'V : p(V); W,W : r(W)')}, Y = {_agg('sum', 'V : p(V)')}, X > Y.")
    add("agg2-overlap", f"a :- X = {_agg('sum', 'V : p(V); V : r(V)')}, Y = {_agg('sum', 'V : r(V)')}, X+Y = 4.")
    add("agg2-overlap", f"a :- X = {_agg('sum', '1 : p(V); 1 : r(V)')}, Y = {_agg('sum', '1 : r(V); -1 : p(V)')}, X-Y = 1.")
    add("agg2-overlap", f"a :- X = {_agg('count', 'V : p(V); V : r(V)')}, Y = {_agg('count', 'V : q(V,_)')}, X < Y.")
    add("agg2-three", f"a :- X = {_agg('sum', 'V : p(V)')}, Y = {_agg('sum', 'V : r(V)')}, Z = {_agg('count', 'V,W : q(V,W)')}, X+Y = Z.")
    add("agg2-three", f"a :- X = {_agg('sum', 'V : p(V)')}, Y = {_agg('sum', 'V : r(V)')}, Z = {_agg('count', 'V,W : q(V,W)')}, X < Z, Y < Z.")
    # sign mixes
    sq = _agg("sum", "V,W : q(V,W)")
    ss = _agg("sum", "V : sel(V)")
    add("agg2-sign", f"{CHOICE}\na :- X = {ss}, not Y = {sq}, X = Y.")
    add("agg2-sign", f"{CHOICE}\n:- X = {ss}, not Y = {sq}, X = Y.")
    add("agg2-sign", f"{CHOICE}\na(X) :- r(X), not not X = {ss}, not not Y = {sq}, X = Y.")
    add("agg2-sign", f"{CHOICE}\na :- not not X = {ss}, Y = {sq}, X = Y.")
    add("agg2-sign", f"{CHOICE}\na(Y) :- not X = {ss}, not Y = {sq}, X = Y, r(Y).")
    add("agg2-sign", f"{CHOICE}\na(Z) :- r(Z), not X = {ss}, Y = {sq}, X = Y+Z.")
    add("agg2-sign", f"{CHOICE}\n:- r(Z), r(Y), not X = {ss}, not not Y = {sq}, X = Y+Z.")
    add("agg2-sign", f"{CHOICE}\n:- X = {ss}, Y = {sq}, not X < Y.")
    add("agg2-sign", f"{CHOICE}\na :- X = {ss}, Y = {sq}, not not X < Y.")
    # chains of assignments
    add("agg-chain", f"a :- X = Y+1, Y = {s}, r(X).")
    add("agg-chain", f"a(X) :- r(X), X = Y+Z, Y = {s}, Z = {_agg('count', 'V,W : q(V,W)')}.")
    add("agg-chain", f"a(X) :- r(X), X = Y-Z, Y = {s}, Z = Y-1.")
    add("agg-chain", f"a(X) :- r(X), Y = {s}, Z = 2*Y, X = Z+1.")

    # ------------------------------------------------------------------ D: assigned but unused values
    for fun in ["sum", "sum+", "count", "min", "max"]:
        add("agg-unused-rec", f"a(X) :- p(X), N = {_agg(fun, 'V : a(V)')}.", [["p", 1]], [["a", 1]])
    for fun in ["sum", "count", "max"]:
        add("agg-unused-nonrec", f"a(X) :- p(X), N = {_agg(fun, 'V : r(V)')}.")
    add("agg-unused-rec", f"a(X) :- p(X), N = {_agg('count', 'V : a(V)')}, N >= 0.")
    add("agg-unused-rec", f"a(X) :- p(X), N = {_agg('sum', 'V : a(V)')}, M = N+1.")
    add("agg-unused-rec", f"a(X) :- p(X), not N = {_agg('sum', 'V : a(V)')}, N = X.")
    add("agg-unused-rec", f"a(X) :- p(X), N = {_agg('sum', 'V : b(V)')}.\nb(X) :- a(X), r(X).")
    add("agg-used-rec", f"a(N) :- p(X), N = {_agg('count', 'V : a(V)')}, N < 3.")
    add("agg-unused-nonrec", f"{CHOICE}\n:- N = {_agg('sum', 'V : sel(V)')}.")
    add("agg-unused-rec", f"a :- N = {_agg('sum', '1 : a')}.")

    # variables of a removed assignment used inside another aggregate
    add("agg-inner-var", f"a :- X = {s}, Y = X+1, 1 <= {_agg('count', 'W : q(W,Y)')}.")
    add("agg-inner-var", f"a :- X = {s}, 1 <= {_agg('count', 'W : q(W,X)')}.")
    add("agg-inner-var", f"a(Y) :- r(Y), Z = Y+1, 1 <= {_agg('count', 'W : q(W,Z)')}, Z > 2.")
    add("agg-inner-var", f"a(Y) :- r(Y), X = {_agg('sum', 'V : p(V), V > Y')}, X > Y.")
    add("agg-inner-var", f"a(Y) :- r(Y), X = {_agg('sum', 'V : p(V), V > Z')}, Z = Y+1, X > Z.")
    add("agg-inner-var", f"a :- X = {s}, Y = {_agg('sum', 'W : q(W,X)')}, X+Y = 2.")

    # ------------------------------------------------------------------ E: weak constraints
    w = []
    w.append(f":~ r(Y), X = {ss}, X > Y. [1@0,Y]")
    w.append(f":~ r(Y), not X = {ss}, X = Y+1. [1@0,Y]")
    w.append(f":~ r(Y), not not X < {ss}, X = Y+1. [1@0,Y]")
    w.append(f":~ X = {ss}, Z = X+1. [Z@0]")
    w.append(f":~ X = {ss}, Z = X+1, r(Y). [Y@Z]")
    w.append(f":~ X = {ss}, Z = 2*X. [1@0,Z]")
    w.append(f":~ X = {ss}, X = 2*Z. [1@0]")
    w.append(f":~ X = {ss}, X = 2*Z. [Z@0]")
    w.append(f":~ X = {ss}, Y = {_agg('sum', 'V : p(V)')}. [X+Y@1]")
    w.append(f":~ X = {ss}, Y = {_agg('sum', 'V : p(V)')}, X < Y. [1@1]")
    w.append(f":~ r(Z), X = {_agg('count', 'V : sel(V)')}, Y = {_agg('count', 'V : p(V)')}. [Z+X+Y@1]")
    w.append(f":~ X = {_agg('sum+', 'V-2,V : sel(V)')}, Y = {_agg('count', 'V : sel(V)')}, X > Y. [1@0]")
    w.append(f":~ X = {_agg('max', 'V : sel(V)')}, Y = {_agg('count', 'V : sel(V)')}, X > Y. [1@0]")
    w.append(f":~ X = {ss}, X < 4, X > 0. [1@0]")
    w.append(":~ sel(X), Y = X*3, Y > 4. [1@0,X]")
    w.append(":~ sel(X), X = Y*3. [1@0,X]")
    w.append(f":~ sel(X), N = {ss}. [1@0,X]")
    for stm in w:
        add("weak", f"{CHOICE}\n{stm}", [["p", 1]], [["sel", 1]])
    return out
