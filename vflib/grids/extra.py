"""Supplementary shape classes added after the first round of seeded changes (DESIGN section 10): every block spans a
class of inputs (not the witness of one change) that the first grids did not contain.

Blocks (tag prefix): x-cleanup (definition order / empty first mapping), x-minmax (doubly negated one-sided bounds,
conditional literals with hard-wired variable names), x-sumchains (two value positions of one predicate), x-normalize
(globals bound by inversion only, equalities inside aggregates / conditional literals), x-unused (head-aggregate atoms
nobody observes, 0-ary double-negation copies in loops), x-duplication (several inlinable equalities, condition literal
repeated in the body)."""
import itertools


def _cleanup():
    out = []
    # a predicate with several definitions; the first ones yield no mapping at all (fact, unrelated body, no shared argument)
    firsts = [
        ("fact", "seat(front)."),
        ("fact2", "seat(front).\nseat(back)."),
        ("unrelated", "seat(S) :- vip(S)."),
        ("noshare", "seat(c) :- row(X)."),
        ("other-arg", "seat(S) :- spare(S), row(T)."),
    ]
    seconds = [
        ("rule", "seat(S) :- spare(S), row(S)."),
        ("choice", "{ seat(S) } :- spare(S), row(S)."),
        ("disj", "seat(S) ; other(S) :- spare(S), row(S)."),
        ("cond", "{ seat(S) : row(S) } :- spare(S)."),
    ]
    uses = [
        ("body", "taken(S) :- seat(S), row(S)."),
        ("constraint", "taken(S) :- seat(S).\n:- seat(S), row(S), not spare(S)."),
        ("cond", "taken :- ok(S) : seat(S), row(S)."),
        ("agg", "cnt(N) :- N = #sum { 1,S : seat(S), row(S) }."),
    ]
    for (fl, f), (sl, s), (ul, u) in itertools.product(firsts, seconds, uses):
        for order in ("first-empty", "last-empty"):
            prog = (f + "\n" + s if order == "first-empty" else s + "\n" + f) + "\n" + u
            out.append({"program": prog, "tag": f"x-cleanup-order:{fl}:{sl}:{ul}:{order}", "trait": "cleanup"})
    # three definitions, the middle one empty
    out.append({"program": "seat(S) :- spare(S), row(S).\nseat(front).\nseat(S) :- extra(S), row(S).\ntaken(S) :- seat(S), row(S).", "tag": "x-cleanup-order:three", "trait": "cleanup"})
    # implication chains through a negative link in both orders of definition
    for a, b in itertools.product(("free(X) :- slot(X), not blocked(X).", "{ free(X) } :- slot(X), not blocked(X)."), ("blocked(X) :- reserved(X).", "blocked(X) :- reserved(X), slot(X).")):
        for use in ("keep(X) :- free(X), reserved(X).", "keep(X) :- free(X), not reserved(X).", "keep :- ok(X) : free(X), reserved(X)."):
            out.append({"program": "\n".join([a, b, use]), "tag": "x-cleanup-neglink", "trait": "cleanup"})
            out.append({"program": "\n".join([b, a, use]), "tag": "x-cleanup-neglink-rev", "trait": "cleanup"})
    return out


def _minmax():
    out = []
    base = "{ sel(P,V) } :- skill(P,V).\nperson(1).\nskill(1,2).\nskill(1,4).\n"
    flat = "{ pick(W) } :- cand(W).\ncand(1).\ncand(5).\n"
    signs = ["", "not ", "not not "]
    # one-sided bounds in the aggregate's own direction and against it, all signs, bound const / variable
    for fn, op, sign in itertools.product(("#min", "#max"), ("<", "<=", ">", ">=", "!=", "="), signs):
        for bound, extra in (("3", ""), ("B", "limit(B), ")):
            out.append({"program": base + f"weak(P) :- person(P), {extra}{sign}{bound} {op} {fn} {{ V : sel(P,V) }}.", "tag": f"x-minmax-bound:{fn}:{op}:{sign.strip() or 'pos'}:{'var' if extra else 'const'}", "trait": "minmax_chains", "in": [["limit", 1]] if extra else []})
        out.append({"program": flat + f"cheap(B) :- limit(B), {sign}B {op} {fn} {{ W : pick(W) }}.", "tag": f"x-minmax-flat:{fn}:{op}:{sign.strip() or 'pos'}", "trait": "minmax_chains"})
    # body literals next to the aggregate that carry local variables with the names ngo generates itself
    for name in ("X", "X0", "__NEXT", "__PREV", "P", "N", "B", "L", "AUX", "G0"):
        out.append({"program": base + f"res(P,M) :- person(P), M = #max {{ V : sel(P,V) }}, ok(P,{name}) : cand({name}).", "tag": f"x-minmax-localname:{name}", "trait": "minmax_chains"})
        out.append({"program": base + f"res(P,M) :- person(P), M = #min {{ V : sel(P,V) }}, 1 <= #count {{ {name} : ok(P,{name}) }}.", "tag": f"x-minmax-localname-agg:{name}", "trait": "minmax_chains"})
        out.append({"program": base + f"res(G0,M) :- person(G0), good(G0,{name}), M = #max {{ V : sel(G0,V) }}.", "tag": f"x-minmax-globalname:{name}", "trait": "minmax_chains"})
    # two objectives / sums with the identical tuple, one over a stored result
    # (every group has the value 0, so that no #inf/#sup reaches the objective: clingo would ignore that tuple)
    base = "{ sel(P,V) } :- skill(P,V).\nsel(P,0) :- person(P).\nperson(2).\nperson(3).\nskill(2,5).\nskill(3,3).\n"
    for obj in ("#minimize", "#maximize"):
        out.append({"program": base + f"best(P,X) :- person(P), X = #max {{ V : sel(P,V) }}.\n{obj} {{ X,P : best(P,X) }}.\n{obj} {{ X,P : bonus(P,X) }}.", "tag": "x-minmax-same-tuple", "trait": "minmax_chains", "out": [["sel", 2]]})
        for fn in ("#max", "#min"):
            # the second statement produces tuples that a stored result can produce as well
            out.append({"program": base + f"bonus(P,V) :- skill(P,V), lucky(P).\nbest(P,X) :- person(P), X = {fn} {{ V : sel(P,V) }}.\n{obj} {{ X,P : best(P,X) }}.\n{obj} {{ X,P : bonus(P,X) }}.", "tag": "x-minmax-same-tuple-coinciding", "trait": "minmax_chains", "out": [["sel", 2]]})
            out.append({"program": base + f"bonus(P,V) :- skill(P,V), lucky(P).\nbest(P,X) :- person(P), X = {fn} {{ V : sel(P,V) }}.\n:~ best(P,X). [{'-' if obj == '#maximize' else ''}X@0,P]\n:~ bonus(P,X). [{'-' if obj == '#maximize' else ''}X@0,P]", "tag": "x-minmax-same-tuple-coinciding-weak", "trait": "minmax_chains", "out": [["sel", 2]]})
            out.append({"program": base + f"bonus(P,V) :- skill(P,V), lucky(P).\nbest(P,X) :- person(P), X = {fn} {{ V : sel(P,V) }}.\n{obj} {{ X,P : best(P,X) }}.\n{obj} {{ Y,Q : bonus(Q,Y) }}.", "tag": "x-minmax-same-tuple-coinciding-renamed", "trait": "minmax_chains", "out": [["sel", 2]]})
        out.append({"program": base + f"best(P,X) :- person(P), X = #max {{ V : sel(P,V) }}.\n{obj} {{ X,slot(P/2) : best(P,X) }}.", "tag": "x-minmax-noninjective-tuple", "trait": "minmax_chains", "out": [["sel", 2]]})
        out.append({"program": base + f"best(P,X) :- person(P), X = #max {{ V : sel(P,V) }}.\n{obj} {{ X,f(P+1) : best(P,X) }}.", "tag": "x-minmax-function-tuple", "trait": "minmax_chains", "out": [["sel", 2]]})
    return out


def _sumchains():
    out = []
    # one at-most-one predicate with two value positions, both used as weights in one program
    heads = [
        "{ p(G,V,W) : d(G,V,W) } 1 :- g(G).",
        "{ p(G,V,W) : dv(V), dw(W) } 1 :- g(G).",
    ]
    uses_v = ["#minimize { V,G : p(G,V,_) }.", ":~ p(G,V,_). [V@1,G]", "tv(G,X) :- g(G), X = #sum { V : p(G,V,_) }."]
    uses_w = ["total(X) :- X = #sum { W,G : p(G,_,W) }.", ":~ p(G,_,W). [W@2,G]", "tw(G,X) :- g(G), X = #sum { W : p(G,_,W) }."]
    for h, uv, uw in itertools.product(heads, uses_v, uses_w):
        out.append({"program": "\n".join([h, uv, uw]), "tag": "x-sumchains-two-positions", "trait": "sum_chains"})
        out.append({"program": "\n".join([h, uw, uv]), "tag": "x-sumchains-two-positions-rev", "trait": "sum_chains"})
    # the same value position used twice, and two different at-most-one predicates
    out.append({"program": "{ p(G,V) : d(G,V) } 1 :- g(G).\n#minimize { V,G : p(G,V) }.\ntotal(X) :- X = #sum { V,G : p(G,V) }.", "tag": "x-sumchains-same-position-twice", "trait": "sum_chains"})
    out.append({"program": "{ p(G,V) : d(G,V) } 1 :- g(G).\n{ q(G,V) : e(G,V) } 1 :- g(G).\n#minimize { V,G,p : p(G,V) }.\n#minimize { V,G,q : q(G,V) }.", "tag": "x-sumchains-two-predicates", "trait": "sum_chains"})
    # objectives whose priorities are a constant and a variable that may coincide
    for prio in ("1", "P"):
        out.append({"program": "{ shift(D,L) : pshift(D,L) } 1 :- day(D).\n:~ shift(D,L). [L@1,D]\n:~ penalty(D,C,P). [C@" + prio + ",D]", "tag": f"x-sumchains-priority:{prio}", "trait": "sum_chains", "out": [["shift", 2]]})
    # group arguments built from several body variables
    for grp in ("G+H", "G*H", "f(G,H)", "G", "|G|"):
        out.append({"program": f"{{ p({grp},V) : d(G,H,V) }} 1 :- g(G), h(H).\n#minimize {{ V,X : p(X,V) }}.", "tag": f"x-sumchains-group-term:{grp}", "trait": "sum_chains", "out": [["p", 2]]})
    return out


def _normalize():
    out = []
    binders = [
        ("mult-atom", "p(2*X)"),
        ("mult-eq", "z(Z), 2*X = Z"),
        ("plus-atom", "p(X+1)"),
        ("neg-atom", "p(-X)"),
        ("plain", "p(X)"),
        ("assign", "z(Z), X = Z+1"),
    ]
    inner = [
        ("agg-eq", "#sum {{ 1,Y : q(Y), {E} }} >= 1"),
        ("agg-eq-min", "M = #min {{ Y : q(Y), {E} }}, M < 9"),
        ("cond-eq", "r(Y) : q(Y), {E}"),
        ("cond-neg", "not r(Y) : q(Y), {E}"),
    ]
    eqs = ["X = Y", "Y = X", "not X != Y", "X = Y+0", "Y = X+1", "Y+1 = X"]
    for (bl, b), (il, i), e in itertools.product(binders, inner, eqs):
        out.append({"program": f"a :- {b}, {i.format(E=e)}.", "tag": f"x-normalize-inversion:{bl}:{il}", "trait": "normalize"})
    # strict and non-strict #inf/#sup guards of #min/#max under all three signs
    for fn, sign in itertools.product(("#min", "#max"), ("", "not ", "not not ")):
        for guard in ("#inf < {A}", "#inf <= {A}", "{A} > #inf", "{A} < #sup", "{A} <= #sup", "#sup > {A}", "#sup >= {A}", "{A} != #inf", "{A} != #sup"):
            agg = fn + " { X : p(X) }"
            out.append({"program": f"nonempty :- {sign}{guard.format(A=agg)}.", "tag": f"x-normalize-infsup:{fn}", "trait": "normalize"})
    return out


def _unused():
    out = []
    # atoms that occur only as the literal of a head-aggregate element; the other observer uses '_'
    heads = [
        "#count {{ X : p(X{R}) : c(X{R}) }} = 1 :- d.",
        "1 <= #count {{ X : p(X{R}) : c(X{R}) }} <= 1 :- d.",
        "#sum {{ W,X : p(X,W) : c(X,W) }} >= 3 :- d.",
        "1 #sum {{ 1,X : p(X{R}) : c(X{R}) }} 1 :- d.",
        "{{ p(X{R}) : c(X{R}) }} = 1 :- d.",
        "p(X{R}) ; np(X{R}) :- c(X{R}), d.",
    ]
    observers = ["q :- p(_{A}).", "q :- not p(_{A}).", "q :- 1 <= #count {{ 1 : p(_{A}) }}.", "", ":- p(X{V}), bad(X)."]
    for h, o in itertools.product(heads, observers):
        for two in (False, True):
            if "W,X" in h and not two:
                continue
            if "W,X" in h:
                prog = h.format(R="") + "\n" + o.format(A=",_", V=",_")
            else:
                prog = h.format(R=",Y" if two else "") + "\n" + o.format(A=",_" if two else "", V=",_" if two else "")
                prog = prog.replace("c(X,Y)", "c(X,Y)")
            out.append({"program": prog, "tag": "x-unused-headagg-atom", "trait": "unused", "out": [["q", 0]] if "q :-" in o else []})
    # 0-ary (and unary) copies under double negation / negation inside positive loops
    for body in ("not not b", "not b", "b"):
        for loop in ("b :- a.", "b :- a, c.", "b :- c.", "b :- a.\nb :- c."):
            for obs in (":- not a.", "r :- a.", ":~ not b. [1@1]", "r :- a, b."):
                out.append({"program": f"a :- {body}.\n{loop}\n{obs}\n{{ c }}.", "tag": f"x-unused-copy-sign:{body.replace(' ', '-')}", "trait": "unused", "out": [["r", 0]]})
    for body in ("not not b(X)", "b(X)"):
        out.append({"program": f"a(X) :- {body}, d(X).\nb(X) :- a(X).\nr(X) :- a(X), e(X).", "tag": "x-unused-copy-sign-unary", "trait": "unused", "out": [["r", 1]]})
    return out


def _duplication():
    out = []
    # statements with two or three inlinable equalities next to a literal set shared with another statement
    shared = ["on, ready", "s(X), t(X)", "s(X), X > 1"]
    eq_rules = [
        "pair(X,Z) :- left(X), X = Y, mid(Y,W), Z = W, right(Z), {S}.",
        "pair(X,Z) :- left(X), mid(Y,W), right(Z), X = Y, Z = W, {S}.",
        "pair(X,Z) :- X = Y, Z = W, left(X), mid(Y,W), right(Z), {S}.",
        "pair(X) :- left(X), X = Y, Y = Z, right(Z), {S}.",
        ":~ left(X), X = Y, mid(Y,W), Z = W, right(Z), {S}. [1@1,X,Z]",
        "pair(X,Z) :- left(X), not X != Y, mid(Y,W), Z = W, right(Z), {S}.",
    ]
    others = ["go :- {S}, start.", "go(X) :- {S}, start(X).", ":- {S}, stop."]
    for s, r, o in itertools.product(shared, eq_rules, others):
        if "X" in s and "(X)" not in o and "stop" not in o:
            continue
        out.append({"program": r.format(S=s) + "\n" + o.format(S=s), "tag": "x-duplication-two-equalities", "trait": "duplication"})
    # a condition literal that is repeated at body level, the condition subset also occurs elsewhere
    reps = [
        "ok(G) :- grp(G), mem(G,X), 2 <= #count {{ Y : mem(G,X), link(X,Y) }}.\nn(G,X,Y) :- mem(G,X), link(X,Y), far(Y).",
        ":- node(X), mark(Y) : node(X), edge(X,Y).\nr(X,Y) :- node(X), edge(X,Y), big(Y).",
        "ok(G) :- mem(G,X), 1 <= #sum {{ Y,X : mem(G,X), link(X,Y) }}.\n:~ mem(G,X), link(X,Y). [1@1,G,X,Y]",
        "ok(G) :- grp(G), hit(Y) : mem(G,X), link(X,Y).\nn(G,X,Y) :- mem(G,X), link(X,Y), far(Y).",
    ]
    for r in reps:
        out.append({"program": r.replace("{{", "{").replace("}}", "}"), "tag": "x-duplication-repeated-condition-literal", "trait": "duplication"})
        out.append({"program": "{ mem(G,X) } :- dm(G,X).\n" + r.replace("{{", "{").replace("}}", "}"), "tag": "x-duplication-repeated-condition-literal-choice", "trait": "duplication"})
    return out


def _robust():
    out = []
    heads = ["#false ; a(X)", "a(X) ; X > 1", "{ X < 2 : d(X) }", "{ #false }", "{ #true : d(X) }", "{ a(X) ; #false : d(X) }", "1 { not a(X) : d(X) }", "{ -a(X) : d(X) }", "a(X) ; not b(X)", "#true ; a(X)"]
    for h in heads:
        out.append({"program": f"{h} :- d(X).\nok :- d(_).", "tag": "x-robust-head-element", "trait": "robust", "in": [["d", 1]]})
    for fn, tup in itertools.product(("#sum", "#sum+", "#count", "#min", "#max"), ("", "1", "X", "X,X")):
        out.append({"program": f"a(S) :- S = {fn} {{ {tup} : d(X) }}.\nb :- {fn} {{ {tup} : d(X) }} >= 0.", "tag": "x-robust-tuple-shape", "trait": "robust", "in": [["d", 1]]})
    for op, rhs in itertools.product(("\\", "/", "**", "*", "+"), ("0", "-1", "Z", "0*X")):
        extra = "e(Z), " if rhs == "Z" else ""
        out.append({"program": f"b(Y) :- d(X), {extra}Y = X {op} {rhs}.\nc :- d(X), {extra}X {op} {rhs} > 1.", "tag": "x-robust-arith-by-zero", "trait": "robust", "in": [["d", 1], ["e", 1]]})
    out.append({"program": "{ sel(V) } :- d(V).\nbest(X) :- X = #max { V : sel(V) }.\nb :- not not best(3).\nc :- not best(#inf).", "tag": "x-robust-negated-result", "trait": "robust", "in": [["d", 1]]})
    # products of an aggregate value with a variable, compared twice (symbolic coefficients inside math)
    for agg in ("#sum", "#count", "#max"):
        out.append({"program": f"a :- b(X,Y,Z), B = {agg} {{ V : e(V) }}, X*B > Y, B < Z.", "tag": "x-robust-symbolic-coefficient", "trait": "robust", "in": [["b", 3], ["e", 1]]})
        out.append({"program": f"a :- b(X,Y,Z), B = {agg} {{ V : e(V) }}, X*B > Y, Y*B < Z, B != X.", "tag": "x-robust-symbolic-coefficient", "trait": "robust", "in": [["b", 3], ["e", 1]]})
    # negated comparison chains in every place, with symmetry-style joins next to them
    for place in ("a(X) :- p(X,A), p(X,B), A != B, not 1 < X < 5.", ":~ p(X,A), p(X,B), A < B, not 1 < A < B < 9. [1@1,X]", "a :- 1 <= #count { X : p(X,A), p(X,B), A != B, not 0 < X < 3 }."):
        out.append({"program": place, "tag": "x-robust-negated-chain-with-join", "trait": "robust", "in": [["p", 2]]})
    return out


def _domains():
    out = []
    # the approximated predicate is declared as input AND defined in the encoding, at different distances from a choice
    defs = [
        ("choice", "{ p(X) } :- b(X)."),
        ("derived", "{ c(X) } :- b(X).\np(X) :- c(X)."),
        ("two-levels", "{ c(X) } :- b(X).\nm(X) :- c(X).\np(X) :- m(X)."),
        ("static-rule", "p(X) :- b(X), X > 1."),
        ("fact", "p(1).\np(X) :- b(X)."),
        ("derived-neg", "{ c(X) } :- b(X).\np(X) :- b(X), not c(X)."),
    ]
    uses = [
        ("max", "mx(M) :- M = #max { V : p(V) }.", "minmax_chains"),
        ("min-bound", "low :- #min { V : p(V) } < 2.", "minmax_chains"),
        ("join", ":- p(X), p(Y), X != Y.", "symmetry"),
        ("join-lt", "two :- p(X), p(Y), X < Y.", "symmetry"),
    ]
    for (dl, d), (ul, u, t) in itertools.product(defs, uses):
        for declared in (True, False):
            out.append({"program": d + "\n" + u, "tag": f"x-domains-input-derived:{dl}:{ul}:{'in' if declared else 'closed'}", "trait": t, "in": [["b", 1]] + ([["p", 1]] if declared else [])})
    for declared in (True, False):
        out.append({"program": "{ c(G,V) } :- b(G,V).\np(G,V) :- c(G,V).\n{ q(G,V) : p(G,V) } 1 :- g(G).\ntotal(S) :- S = #sum { V,G : q(G,V) }.", "tag": f"x-domains-input-derived:sum:{'in' if declared else 'closed'}", "trait": "sum_chains", "in": [["b", 2], ["g", 1]] + ([["p", 2]] if declared else [])})
    # a second body aggregate over a choice-defined predicate next to the #min/#max aggregate
    for fn, guard in itertools.product(("#count", "#sum"), ("L = {A}", "L <= {A}", "{A} >= L", "L != {A}")):
        tup = "T" if fn == "#count" else "T,T"
        agg = fn + " { " + tup + " : task(T) }"
        for owner in ("{ task(T) } :- t(T).", "task(T) :- t(T)."):
            out.append({"program": owner + "\nlvl(0..3).\nbest(L,X) :- lvl(L), X = #max { V : skill(L,V) }, " + guard.format(A=agg) + ".", "tag": f"x-domains-dynamic-agg:{fn}:{'choice' if owner.startswith('{') else 'static'}", "trait": "minmax_chains", "in": [["t", 1], ["skill", 2]]})
            out.append({"program": owner + "\n{ sel(L,V) } :- skill(L,V).\nlvl(0..3).\nbest(L,X) :- lvl(L), X = #max { V : sel(L,V) }, " + guard.format(A=agg) + ".", "tag": f"x-domains-dynamic-agg-sel:{fn}:{'choice' if owner.startswith('{') else 'static'}", "trait": "minmax_chains", "in": [["t", 1], ["skill", 2]]})
    return out


def _projection():
    out = []
    # literals that look like binders to a too liberal analysis: not not p(..), negated comparisons
    fakes = ["not not r(X,B)", "not r(X,B)", "not not X = B", "not X != B", "not not r(X,_)", "r(X,B)"]
    shapes = [
        "h(A,X) :- t(A,X), s(B), {F}.",
        "h(A,D) :- q(A,B,C), r2(A,D,X,F), {F}, u(C).",
        "h(A,X) :- t(A,X), s(B), w(B,C), {F}, v(C).",
        "{{ h(A,X) }} :- t(A,X), s(B), {F}.",
        ":- t(A,X), s(B), {F}, not ok(A).",
    ]
    for sh, f in itertools.product(shapes, fakes):
        out.append({"program": sh.format(F=f), "tag": "x-projection-fake-binder", "trait": "projection"})
        out.append({"program": sh.format(F=f) + "\ng(A,X) :- t(A,X), s(B), " + f + ", z(A).", "tag": "x-duplication-fake-binder", "trait": "duplication"})
    return out


def _symmetry():
    out = []
    # three and four candidate joins in one body; some of them are unusable because a compared variable occurs elsewhere,
    # others share their compared variables
    joins = {
        "at": "at(X,Y,T), at(X,Y,U)",
        "minot": "minot(Z,W,T), minot(Z,W,U)",
        "q": "q(A), q(B), A != B",
        "qblocked": "q(A), q(B), A != B, r(A)",
        "s": "s(C), s(D), C < D",
        "sblocked": "s(C), s(D), C < D, r(D)",
    }
    combos = [
        ("at", "minot", "qblocked"), ("qblocked", "at", "minot"), ("at", "qblocked", "minot"), ("at", "minot", "q"),
        ("at", "minot", "sblocked"), ("sblocked", "at", "minot"), ("at", "minot", "q", "sblocked"), ("qblocked", "sblocked", "at", "minot"),
        ("q", "s"), ("qblocked", "s"), ("q", "sblocked"), ("at", "q"), ("at", "qblocked"),
    ]
    for combo in combos:
        body = ", ".join(joins[c] for c in combo)
        if "at" in combo or "minot" in combo:
            body += ", T != U"
        for head in ("bad", ""):
            out.append({"program": f"{head} :- {body}.", "tag": f"x-symmetry-many-joins:{'+'.join(combo)}", "trait": "symmetry", "out": [["bad", 0]] if head else []})
    # compared variables that only occur in the priority / weight / tuple of a weak constraint
    for tup in ("[1@P1]", "[1@1,P1]", "[P1@1]", "[1@P1,X]", "[1@1,X]", "[1@V1,X]", "[V1@P1]"):
        out.append({"program": f":~ player(P1,X,V1), player(P2,X,V2), P1 != P2, V1 != V2. {tup}", "tag": f"x-symmetry-weak-tuple:{tup}", "trait": "symmetry"})
        out.append({"program": f":~ assign(P1,X), assign(P2,X), P1 != P2. {tup.replace('V1', 'P2')}", "tag": f"x-symmetry-weak-tuple1:{tup}", "trait": "symmetry"})
    return out


def _math():
    out = []
    # variables that are only needed by the condition of a head element
    heads = ["{ h(Y) : d(Y) }", "h(Y) : d(Y) ; g", "1 <= #count { Y : h(Y) : d(Y) }", "{ h(Y) }", "h(Y)", "{ h(X,Y) : d(Y) } 1", "#sum { Y : h(Y) : d(Y) } <= 3"]
    bodies = ["b(X), Y = X+1", "b(X), Y = 2*X", "b(X), Y+1 = X", "b(X), b(Z), Y = X+Z", "b(X), Y = X+1, Y > 1", "b(X), X = Y"]
    for h, b in itertools.product(heads, bodies):
        out.append({"program": f"{h} :- {b}.", "tag": "x-math-head-condition-variable", "trait": "math", "in": [["b", 1], ["d", 1]]})
    # coefficients other than +-1 on the eliminated value, followed by another comparison over it
    for rel in ("Z = 2*Y, Y > X", "2*Y = Z, Y >= X", "Z = 3*Y, Y != X", "Z = 2*Y+1, Y > X", "Z = -2*Y, Y < X"):
        out.append({"program": f"a(X,Z) :- b(X), b(Z), {rel}.", "tag": "x-math-nonunit-coefficient", "trait": "math", "in": [["b", 1]]})
    for rel in ("2*X = Z, X > 1", "3*X = Z, X != 2", "2*X+1 = Z, X >= 1", "X = 2*Z, Z > 0"):
        out.append({"program": "{ sel(V) } :- p(V).\n" + f"a(Z) :- X = #sum {{ V : sel(V) }}, r(Z), {rel}.", "tag": "x-math-nonunit-coefficient-agg", "trait": "math", "in": [["p", 1], ["r", 1]]})
    return out


def programs():
    from . import extra2

    out = _symmetry() + _math() + _cleanup() + _minmax() + _sumchains() + _normalize() + _unused() + _duplication() + _robust() + _domains() + _projection()
    out += extra2.programs()  # second round of seeded changes
    from . import extra3

    out += extra3.programs()  # third round
    # the harness samples stratified by tag: give every variant of a class its own tag (class#variant)
    seen: dict = {}
    for prog in out:
        n = seen.get(prog["tag"], 0)
        seen[prog["tag"]] = n + 1
        prog["tag"] = f"{prog['tag']}#{n}"
    return out
