"""Robustness grid (C03): valid, safe clingo programs made of constructs the passes of ngo do NOT optimise,
placed next to small "victim" rules on which the passes DO fire, so that every pass has to walk over (and leave
alone) the foreign construct.  Spanned: head aggregates (5 functions x guards none/left/right/both/variable x
element shapes one/two/without condition, plus conditions and guards fed by unused/inline/minmax victims), body
aggregates (5 functions x guard forms none/left/right/both/variable/assignment x signs none/not/not not),
several aggregates per rule, set-style body aggregates, conditional literals, theory atoms in heads and bodies
(with variables that only the theory atom uses: the side condition "a variable is used" of unused, symmetry,
math, cleanup/postprocess inlining), every directive (#show in all forms, #project, #external, #heuristic, #edge,
#defined, #const, #program parts, #minimize) aimed at a predicate that unused / inline / minmax wants to
rewrite and that is deliberately NOT declared as output, a term x position matrix (pools, intervals, #inf,
strings, tuples, function terms, |.|, constants, X+1 in head / body atom / equality / aggregate tuple /
aggregate condition / choice head / weak-constraint tuple), classical negation in every position, disjunctions
with conditions, boolean constants, chained comparisons (also under not / not not, which preprocess splits),
anonymous variables (also inside the right-hand side of an equality that postprocess inlines), same name with
different arity, the empty program, facts only, duplicated rules, bounded choice rules feeding
#sum/#count/#max (sum_chains trigger: global vs. conditional bound 1, exact 1, bound 2, two elements), weak
constraints / #minimize with arithmetic in weight, priority, tuple and body at once (exline_arithmetic), and
ping-pong candidates for non-termination (arithmetic in heads and body atoms, equalities X = Y+1 feeding atoms
x consumers that are unused / inlined / aggregated / self-joined / constrained)."""
import itertools

FUNS = ["#sum", "#sum+", "#count", "#min", "#max"]
FTAG = {"#sum": "sum", "#sum+": "sumplus", "#count": "count", "#min": "min", "#max": "max"}

THEORY = "#theory dl { t { - : 1, binary, left; + : 1, binary, left }; &diff/0 : t, {<=, >=}, t, any }."


def _add(out, tag, lines, inn=None, outp=None):
    rec = {"program": "\n".join(lines) + ("\n" if lines else ""), "tag": tag}
    if inn is not None:
        rec["in"] = inn
    if outp is not None:
        rec["out"] = outp
    out.append(rec)


# ------------------------------------------------------------------------------------------
# A. head aggregates
# ------------------------------------------------------------------------------------------
def head_aggregates(out):
    guards = [("none", "", "", ""), ("left", "1 <= ", "", ""), ("right", "", " <= 2", ""), ("both", "1 <= ", " <= 3", ""), ("var", "N <= ", "", "lim(N)")]
    shapes = [
        ("one", "X : sel(X) : dom(X)"),
        ("two", "X,a : sel(X) : dom(X); Y,b : pick(Y) : dom(Y), Y > 1"),
        ("nocond", "1,x : flag; X,y : sel(X) : dom(X)"),
    ]
    for fn, (gname, lg, rg, body), (sname, elems) in itertools.product(FUNS, guards, shapes):
        if gname in ("left", "right", "var") and sname != "one":
            continue
        if gname == "both" and sname == "nocond":
            continue
        head = f"{lg}{fn} {{ {elems} }}{rg}"
        lines = [head + (f" :- {body}." if body else ".")]
        # a consumer the passes like: unused variable + aggregate over the chosen atoms
        if sname == "two":
            lines.append("ok(X) :- sel(X), not pick(X).")
        elif sname == "one":
            lines.append("cnt(N) :- N = #count { X : sel(X) }.")
        else:
            lines.append("ok :- flag, sel(_).")
        _add(out, f"headagg-{FTAG[fn]}-{gname}-{sname}", lines, inn=[["dom", 1]])


# ------------------------------------------------------------------------------------------
# B. body aggregates
# ------------------------------------------------------------------------------------------
def body_aggregates(out):
    forms = [
        ("noguard", "a", "{S}{F} {{ X : p(X) }}", ["", "not ", "not not "]),
        ("left", "a", "{S}2 <= {F} {{ X : p(X) }}", ["", "not "]),
        ("right", "a", "{S}{F} {{ X : p(X) }} < 3", [""]),
        ("both", "a", "{S}0 < {F} {{ X : p(X) }} != 3", ["", "not not "]),
        ("varboth", "a(Y)", "q(Y), {S}Y <= {F} {{ X : p(X) }} <= Y+2", ["not "]),
        ("assign", "a(V)", "{S}V = {F} {{ X : p(X) }}", [""]),
    ]
    for fn in FUNS:
        for fname, head, body, signs in forms:
            for sign in signs:
                lines = ["{ p(X) } :- d(X).", f"{head} :- " + body.format(S=sign, F=fn) + "."]
                sg = {"": "pos", "not ": "not", "not not ": "notnot"}[sign]
                _add(out, f"bodyagg-{FTAG[fn]}-{fname}-{sg}", lines, inn=[["d", 1]])

    # several aggregates in one rule
    pairs = [("#sum", "#count"), ("#min", "#max")]
    kinds = [
        ("assign2", "a(S,C) :- S = {F} {{ X : p(X) }}, C = {G} {{ X : p(X), X > 1 }}."),
        ("guard2", "a :- {F} {{ X : p(X) }} > 1, {G} {{ X,Y : p(X), d(Y) }} < 3."),
        ("assign-not", "a(S) :- S = {F} {{ X : p(X) }}, not {G} {{ X : p(X) }} < 1."),
        ("elements", "a(S) :- S = {F} {{ X,1 : p(X); Y,2 : d(Y), not p(Y); 5 }}, not not 0 <= {G} {{ 1 : p(_) }}."),
    ]
    for (f, g), (kname, rule) in itertools.product(pairs, kinds):
        _add(out, f"multiagg-{kname}-{FTAG[f]}-{FTAG[g]}", ["{ p(X) } :- d(X).", rule.format(F=f, G=g)], inn=[["d", 1]])

    # set-style body aggregates and conditional literals
    sets = [
        ("setagg-known-foobar", ["foobar :- { e : a, b }."], None),
        ("setagg-bounds", ["{ p(X) } :- d(X).", "foo :- 1 { p(X) : d(X) } 2."], [["d", 1]]),
        ("setagg-not-global", ["{ p(X) } :- d(X).", "foo :- not { p(X) } 0, d(X)."], [["d", 1]]),
        ("setagg-two-elements", ["{ p(X) } :- d(X).", "{ q(X) } :- d(X).", "foo :- { p(X) : d(X); q(Y) : d(Y) } = 2."], [["d", 1]]),
        ("setagg-assign", ["{ p(X) } :- d(X).", "foo(N) :- N = { p(X) : d(X) }."], [["d", 1]]),
        ("setagg-noguard-single", ["{ p(X) } :- d(X).", "foo :- { p(X) : d(X) }."], [["d", 1]]),
        ("setagg-noguard-not", ["{ p(X) } :- d(X).", "foo :- not { p(1); p(2) }."], [["d", 1]]),
        ("condlit-plain", ["{ p(X) } :- d(X).", "a :- p(X) : d(X)."], [["d", 1]]),
        ("condlit-global", ["{ p(X) } :- d(X).", "a(Y) :- q(Y), p(X) : d(X), X < Y."], [["d", 1]]),
        ("condlit-neg", ["{ p(X) } :- d(X).", "a :- not p(X) : d(X); q(_)."], [["d", 1]]),
        ("condlit-with-agg", ["{ p(X) } :- d(X).", "a :- #count { X : p(X) } >= 1, p(Y) : d(Y)."], [["d", 1]]),
        ("condlit-two", ["{ p(X) } :- d(X).", "a(Z) :- q(Z), p(X) : d(X), X > Z; not p(Y) : d(Y), Y < Z."], [["d", 1]]),
        ("condlit-in-constraint", ["{ p(X) } :- d(X).", ":- p(X) : d(X), X > 1; d(_)."], [["d", 1]]),
        ("condlit-cmp-literal", ["{ p(X) } :- d(X).", "a :- X < 3 : p(X)."], [["d", 1]]),
    ]
    for tag, lines, inn in sets:
        _add(out, tag, lines, inn=inn)


# ------------------------------------------------------------------------------------------
# C. theory atoms
# ------------------------------------------------------------------------------------------
def theory(out):
    progs = [
        ("theory-def-only", [THEORY]),
        ("theory-head-fact", [THEORY, "&diff { a-b } <= 3."]),
        ("theory-head-rule", [THEORY, "&diff { X-Y } <= 3 :- e(X,Y)."]),
        ("theory-head-rule-weight", [THEORY, "&diff { X-Y } <= W :- e(X,Y), w(X,W)."]),
        ("theory-head-unused-var", [THEORY, "&diff { X-0 } <= 3 :- e(X,Y), w(Z,W)."]),
        ("theory-head-element-cond", [THEORY, "{ sel(X) } :- d(X).", "&diff { X-Y : sel(X) } <= 3 :- e(X,Y)."]),
        ("theory-body", [THEORY, "late(X) :- &diff { X-0 } <= 3, d(X)."]),
        ("theory-body-not", [THEORY, "late(X) :- not &diff { X-0 } >= 3, d(X)."]),
        ("theory-body-and-head", [THEORY, "&diff { a-b } <= 3 :- not &diff { b-a } <= 1."]),
        ("theory-head-arith", [THEORY, "&diff { X-Y } <= Z :- e(X,Y), Z = X+Y."]),
        ("theory-with-minmax", [THEORY, "{ sel(X) } :- d(X).", "top(M) :- M = #max { X : sel(X) }.", "&diff { a-b } <= M :- top(M)."]),
        ("theory-with-inline", [THEORY, "mid(X) :- d(X), X > 1.", "&diff { X-0 } <= 3 :- mid(X)."]),
        ("theory-with-unused", [THEORY, "aux(X,Y) :- d(X), d(Y), X < Y.", "&diff { X-0 } <= 3 :- aux(X,_)."]),
        ("theory-with-symmetry", [THEORY, "{ sel(X) } :- d(X).", "&diff { X-Y } <= 0 :- sel(X), sel(Y), X != Y."]),
        ("theory-body-with-agg", [THEORY, "{ sel(X) } :- d(X).", "late :- &diff { a-b } <= 3, #sum { X : sel(X) } > 2."]),
        ("theory-in-constraint", [THEORY, ":- &diff { X-0 } <= 3, d(X), X > 2."]),
        ("theory-head-equality-var", [THEORY, "&diff { Y-0 } <= 3 :- d(X), Y = X+1."]),
        ("theory-body-equality-var", [THEORY, "a(X) :- d(X), Y = X+1, &diff { Y-0 } <= 3."]),
        ("theory-body-symmetry", [THEORY, "{ sel(X) } :- d(X).", "a :- &diff { X-Y } <= 0, sel(X), sel(Y), X != Y."]),
        ("theory-head-projection", [THEORY, "&diff { X-0 } <= 3 :- e(X,Y), f(Y,Z), g(Z)."]),
        ("theory-guard-var-only", [THEORY, "&diff { a-b } <= W :- d(X), W = X*2."]),
    ]
    for tag, lines in progs:
        outp = None
        if tag == "theory-with-inline":
            outp = []
        if tag == "theory-with-unused":
            outp = []
        _add(out, tag, lines, outp=outp)


# ------------------------------------------------------------------------------------------
# D. directives aimed at a predicate that some pass wants to rewrite
# ------------------------------------------------------------------------------------------
def directives(out):
    cores = [
        # unused shrinks aux/2 to arity 1 (second argument never used), aux is not an output
        ("unused", ["{ sel(X) } :- dom(X).", "aux(X,Y) :- sel(X), dom(Y), X < Y.", "used(X) :- aux(X,_)."], "aux", "X,Y", 2, "dom(X), dom(Y)", [["used", 1], ["sel", 1]]),
        # inline removes mid/1 (single rule, used once), mid is not an output
        ("inline", ["{ sel(X) } :- dom(X).", "mid(X) :- sel(X), X > 1.", "fin(X) :- mid(X), not dom(X+1)."], "mid", "X", 1, "dom(X)", [["fin", 1], ["sel", 1]]),
        # minmax replaces the #max rule by a chain
        ("minmax", ["{ sel(X) } :- dom(X).", "top(X) :- X = #max { V : sel(V) }, dom(X).", "big :- top(X), X > 2."], "top", "X", 1, "dom(X)", [["big", 0], ["sel", 1]]),
    ]
    dirs = [
        ("show-sig", ["#show {V}/{K}."]),
        ("show-nothing", ["#show."]),
        ("show-term", ["#show t({A}) : {V}({A})."]),
        ("project-sig", ["#project {V}/{K}."]),
        ("project-atom", ["#project {V}({A}) : {D}."]),
        ("external", ["#external {V}({A}) : {D}."]),
        ("heuristic", ["#heuristic {V}({A}) : {D}. [1@1,true]"]),
        ("edge", ["#edge (X,X+1) : {V}({A})."]),
        ("defined", ["#defined {V}/{K}.", "#defined nowhere/3."]),
        ("const-body", ["#const n = 2.", "cut(X) :- {V}({A}), X > n."]),
        ("const-agg-weight", ["#const n = 2.", "cut(S) :- S = #sum {{ n*X,X : {V}({A}) }}, S > n."]),
        ("program-part", ["#program extra(k).", "more(X,k) :- {V}({A}).", "#program check.", ":- {V}({A}), X > 5."]),
        ("theory", [THEORY.replace("{", "{{").replace("}", "}}"), "&diff {{ X-0 }} <= 3 :- {V}({A})."]),
        ("minimize-const", ["#const n = 1.", "#minimize {{ X@n,{A} : {V}({A}) }}."]),
        ("weak-const", ["#const n = 2.", ":~ {V}({A}). [n*X@n,{A}]"]),
    ]
    for (cname, core, v, a, k, d, outp), (dname, dl) in itertools.product(cores, dirs):
        extra = [line.format(V=v, A=a, K=k, D=d) for line in dl]
        _add(out, f"dir-{dname}-{cname}", core + extra, inn=[["dom", 1]], outp=outp)


# ------------------------------------------------------------------------------------------
# E. term x position matrix
# ------------------------------------------------------------------------------------------
def terms(out):
    terms_ = [
        ("pool", "(X;1)", []),
        ("interval", "(X..X+1)", []),
        ("string", '"s t"', []),
        ("tuple2", "(X,a)", []),
        ("fterm", "f(g(X))", []),
        ("abs", "|X-2|", []),
        ("const", "n", ["#const n = 2."]),
        ("plus", "X+1", []),
    ]
    positions = [
        ("head", ["h({T}) :- d(X).", "ok :- h(_)."]),
        ("bodyatom", ["h(X) :- d(X), q({T}).", "ok :- h(_)."]),
        ("equality", ["h(X,Y) :- d(X), Y = {T}.", "ok :- h(_,_)."]),
        ("aggtuple", ["{ sel(X) } :- d(X).", "h(S) :- S = #sum { X,{T} : sel(X) }.", "ok :- h(_)."]),
        ("aggcond", ["{ sel(X) } :- d(X).", "h(S) :- S = #max { X : sel(X), q({T}) }.", "ok :- h(_)."]),
        ("choice", ["{ sel({T}) } :- d(X).", "h(Y) :- sel(Y).", "ok :- h(_)."]),
        ("weaktuple", ["{ sel(X) } :- d(X).", "h(X) :- sel(X), q(_).", ":~ h(X). [X@1,{T}]", "ok :- h(_)."]),
    ]
    n = 0
    for (tname, t, pre), (pname, lines) in itertools.product(terms_, positions):
        if tname in ("pool", "interval") and pname in ("equality", "compare", "aggtuple", "weaktuple"):
            # pools/intervals outside atoms: keep one representative each (interval in equality, pool nowhere)
            if not (tname == "interval" and pname in ("equality", "aggtuple")):
                continue
        n += 1
        outp = [["ok", 0]] if n % 2 else None
        _add(out, f"term-{tname}-{pname}", pre + [line.replace("{T}", t) for line in lines], inn=[["d", 1]], outp=outp)


# ------------------------------------------------------------------------------------------
# F. other syntax: classical negation, disjunction, boolean constants, comparisons, arities, specials
# ------------------------------------------------------------------------------------------
def syntax(out):
    progs = [
        ("empty-program", [], None, None),
        ("facts-only", ["p(1).", "p(2).", "q(a,b).", "r."], None, None),
        ("facts-pools-intervals", ["p(1;2).", "q(1..3).", "r((1;2),3).", "s(f(1;2)).", "ok(X) :- p(X), q(X)."], None, None),
        ("rule-duplicated", ["a(X) :- p(X), q(X).", "a(X) :- p(X), q(X)."], None, None),
        ("rule-duplicated-agg", ["m(X) :- X = #max { V : p(V) }.", "m(X) :- X = #max { V : p(V) }."], None, None),
        ("rule-duplicated-choice", ["{ s(X) } :- p(X).", "{ s(X) } :- p(X).", "ok :- s(_)."], None, None),
        ("fact-and-rule-same-head", ["a(1).", "a(X) :- p(X).", "ok :- a(_)."], None, None),
        ("classical-neg-head", ["{ p(X) } :- d(X).", "-p(X) :- d(X), not p(X).", "q(X) :- -p(X)."], [["d", 1]], None),
        ("classical-neg-choice", ["{ -p(X) } :- d(X).", "q(X) :- -p(X), not p(X).", "p(X) :- d(X), X > 2."], [["d", 1]], None),
        ("classical-neg-agg", ["{ -p(X) } :- d(X).", "m(M) :- M = #max { X : -p(X) }.", "c(N) :- N = #count { X : -p(X), not p(X) }."], [["d", 1]], None),
        ("classical-neg-unused", ["-aux(X,Y) :- d(X), d(Y).", "used(X) :- -aux(X,_)."], [["d", 1]], [["used", 1]]),
        ("classical-neg-input", ["a(X) :- -e(X), not e(X)."], [["e", 1]], None),
        ("classical-neg-head-only", ["-p(X) :- d(X)."], [["d", 1]], None),
        ("classical-neg-body-only", ["{ p(X) } :- d(X).", "q(X) :- d(X), not -p(X)."], [["d", 1]], None),
        ("classical-neg-zero-arity", ["{ b }.", "-a :- b.", "c :- -a."], None, None),
        ("classical-neg-constraint", ["{ p(X) } :- d(X).", "{ -p(X) } :- d(X).", ":- p(X), -p(X), X > 5.", "ok(X) :- p(X), not -p(X)."], [["d", 1]], None),
        ("classical-neg-condition", ["{ s(X) : -e(X) } :- go.", "ok :- s(_)."], [["go", 0], ["e", 1]], None),
        ("disjunction-plain", ["a(X) ; b(X) :- d(X).", "ok :- a(_)."], [["d", 1]], None),
        ("disjunction-cond", ["a(X) : d(X) ; b :- go.", "ok :- a(X), X > 1."], [["d", 1], ["go", 0]], None),
        ("disjunction-cond-two", ["p(X) : q(X,Y), Y > 1 ; r(Y) : d(Y) :- go(_)."], None, None),
        ("disjunction-neg-literal", ["a(X) ; not b(X) :- d(X).", "{ b(X) } :- d(X)."], [["d", 1]], None),
        ("disjunction-unused-var", ["a(X) ; b(Y) :- d(X), d(Y), d(Z).", "ok :- a(X), b(X)."], [["d", 1]], [["ok", 0]]),
        ("choice-no-cond-bounds", ["1 { a ; b ; c } 2.", "ok :- a, not b."], None, None),
        ("choice-two-conds", ["{ a(X) : d(X) ; b(Y) : e(Y,_) } = 1 :- go.", "ok :- a(X), b(X)."], [["d", 1], ["go", 0]], None),
        ("choice-left-var-bound", ["N { a(X) : d(X) } :- lim(N).", "ok(X) :- a(X), not lim(X)."], [["d", 1]], None),
        ("choice-nested-pool", ["{ a(X;X+1) } :- d(X).", "ok :- a(1)."], [["d", 1]], None),
        ("head-negated-literal", ["{ a } :- b.", "not a :- c.", "not not a :- d."], [["b", 0], ["c", 0], ["d", 0]], None),
        ("head-comparison", ["X < 2 :- d(X).", "ok(X) :- d(X)."], [["d", 1]], None),
        ("head-boolean", ["#false :- p, q.", "#true :- p.", "ok :- p, #true.", "no :- p, #false.", ":- not #true."], [["p", 0], ["q", 0]], None),
        ("body-boolean-not", ["a :- not #false, p.", "b :- not not #true, p.", "c :- p : #true.", "d :- #false : p."], [["p", 0]], None),
        ("comparison-chain", ["a(X) :- d(X), 1 < X < 5.", "b(X,Y) :- e(X,Y), X < Y <= 3 != X.", "c(X) :- d(X), d(Y), X = Y = 2."], None, None),
        ("comparison-chain-agg", ["{ s(X) } :- d(X).", "a :- #sum { X : s(X), 0 < X < 3 } > 1.", "b(M) :- M = #max { X : s(X), X != 2 != 3 }."], [["d", 1]], None),
        ("comparison-chain-not", ["a(X) :- d(X), not 1 < X < 3.", "b(X) :- d(X), not not 1 < X < 3."], [["d", 1]], None),
        ("comparison-chain-not-condition", ["{ s(X) } :- d(X).", "a :- not 1 < X < 3 : s(X).", "b :- #sum { X : s(X), not 1 < X < 3 } > 2."], [["d", 1]], None),
        ("comparison-not", ["a(X) :- d(X), not X < 2.", "b(X) :- d(X), not not X = 2.", "c(X) :- d(X), not X != X."], None, None),
        ("comparison-sides", ["a(X) :- d(X), X+1 < 2*X.", "b(X) :- d(X), (X,1) < (2,X).", "c(X) :- d(X), f(X) != f(1)."], None, None),
        ("arity-overload", ["p.", "p(1).", "p(1,2).", "q :- p.", "q(X) :- p(X).", "q(X,Y) :- p(X,Y).", "ok :- q, q(_), q(_,_)."], None, None),
        ("arity-overload-unused", ["{ s(X) } :- d(X).", "aux(X) :- s(X).", "aux(X,Y) :- s(X), d(Y).", "used :- aux(X,_).", "used1(X) :- aux(X)."], [["d", 1]], [["used", 0], ["used1", 1]]),
        ("arity-overload-minmax", ["{ s(X) } :- d(X).", "m(X) :- X = #max { V : s(V) }.", "m(X,Y) :- X = #min { V : s(V) }, Y = #max { V : s(V) }."], [["d", 1]], None),
        ("anonymous-everywhere", ["a :- e(_,_).", "b(X) :- e(X,_), not e(_,X).", "c :- #count { X : e(X,_) } > 1.", "{ s(X) } :- e(X,_).", "f(N) :- N = #max { X : e(_,X) ; Y : e(Y,_) }."], None, None),
        ("anonymous-head-choice", ["{ s(X) : e(X,_) } 1 :- e(_,_).", "t(X) :- s(X), e(_,X)."], None, None),
        ("anonymous-negative-agg", ["{ s(X) } :- d(X).", "a(X) :- d(X), not s(_).", "b :- not #count { 1 : s(_) } > 1.", ":~ s(_). [1@1]"], [["d", 1]], None),
        ("inf-sup-aggregates", ["{ s(X) } :- d(X).", "m(X) :- X = #max { #inf ; V : s(V) }.", "n(X) :- X = #min { V : s(V) }, X < #sup.", "o :- #max { V : s(V) } = #inf."], [["d", 1]], None),
        ("inf-sup-compare", ["lo(#inf).", "hi(#sup).", "mid(X) :- d(X), lo(L), hi(H), L < X < H."], [["d", 1]], None),
        ("strings", ['name("a b").', 'lbl(X,"x") :- d(X).', 's(X) :- d(X), X != "str".', "ok :- lbl(_,S), name(S)."], [["d", 1]], None),
        ("tuples", ["t((X,Y)) :- e(X,Y).", "u((X,)) :- d(X).", "v(X) :- t((X,_)).", "w(X) :- u(T), T = (X,).", "z(())."], None, None),
        ("tuple-unify", ["t((X,Y)) :- e(X,Y).", "w(X) :- t(T), T = (X,Y), d(Y).", "v(X,Y) :- t(T), (X,Y) = T."], None, None),
        ("anonymous-in-equality-agg", ["t((X,Y)) :- e(X,Y).", "s(S) :- S = #sum { X,T : t(T), T = (X,_) }."], None, None),
        ("anonymous-in-equality-head", ["t(f(X,Y)) :- e(X,Y).", "s(T) :- t(T), T = f(X,_)."], None, None),
        ("anonymous-in-equality-body", ["t(f(X,Y)) :- e(X,Y).", "s(X) :- t(T), T = f(X,_), not bad(T)."], None, None),
        ("function-terms", ["f(g(X)) :- d(X).", "h(X) :- f(g(X)), not f(X).", "k(f(X),g(Y,Y)) :- e(X,Y).", "ok(X) :- k(f(X),_)."], None, None),
        ("function-term-unused", ["aux(f(X),g(Y)) :- d(X), d(Y).", "used(X) :- aux(f(X),_)."], [["d", 1]], [["used", 1]]),
        ("function-term-minmax", ["{ s(f(X)) } :- d(X).", "m(T) :- T = #max { f(X) : s(f(X)) }.", "n(X) :- X = #min { V : s(f(V)) }."], [["d", 1]], None),
        ("arith-operators", ["a(Y) :- d(X), Y = |X| + X**2 + X\\2 + (X & 3) + (X ? 1) + (X ^ 1) + ~X.", "b(X/2) :- d(X).", "c(Y) :- d(X), Y = -(-X)."], [["d", 1]], None),
        ("arith-div-mod-eq", ["a(X) :- d(X), X \\ 2 = 0.", "b(Y) :- d(X), Y = X / 2, Y * 2 = X.", "c(X) :- d(X), X * X = 4."], [["d", 1]], None),
        ("symbolic-constants-in-arith-free", ["col(red;green).", "{ has(X,C) : col(C) } = 1 :- d(X).", ":- has(X,C), has(Y,C), X < Y.", "n(C,N) :- col(C), N = #count { X : has(X,C) }."], [["d", 1]], None),
        ("minimize-forms", ["{ s(X) } :- d(X).", "#minimize { X@1,X : s(X) }.", "#maximize { 1@2,X : s(X), X > 1 }.", ":~ s(X), not d(X+1). [X@1,tag]", ":~ . [0@3]"], [["d", 1]], None),
        ("show-only-terms", ["{ s(X) } :- d(X).", "#show.", "#show X : s(X).", "#show pair(X,Y) : s(X), s(Y), X < Y.", "#show none."], [["d", 1]], None),
        ("show-term-body-vars", ["#show t(X) : e(X,Y), f(Y,Z).", "ok :- e(_,_)."], [["e", 2], ["f", 2]], None),
        ("show-term-equality", ["#show t(Y) : d(X), Y = X+1.", "ok :- d(_)."], [["d", 1]], None),
        ("show-term-symmetry", ["{ sel(X) } :- d(X).", "#show t(X,Y) : sel(X), sel(Y), X != Y."], [["d", 1]], None),
        ("show-term-aggregate", ["{ sel(X) } :- d(X).", "#show t(M) : M = #max { V : sel(V) }.", "#show u(S) : S = #sum { V : sel(V) }."], [["d", 1]], None),
        ("directive-body-equality", ["{ sel(X) } :- d(X).", "#edge (X,Y) : d(X), Y = X+1.", "#external c(Y) : d(X), Y = X+1.", "#heuristic sel(Y) : d(X), Y = X+1. [Y@1,true]", "#project sel(Y) : d(X), Y = X+1."], [["d", 1]], None),
        ("directive-body-aggregate", ["{ sel(X) } :- d(X).", "#edge (M,N) : M = #max { V : sel(V) }, N = #min { V : sel(V) }.", "#external c(M) : M = #max { V : sel(V) }.", "#heuristic sel(X) : d(X), M = #max { V : sel(V) }. [M@1,true]"], [["d", 1]], None),
        ("directive-body-unused-vars", ["{ sel(X) } :- d(X).", "#edge (X,a) : e(X,Y), f(Y,Z).", "#external c(X) : e(X,Y), f(Y,Z).", "#heuristic sel(X) : e(X,Y), f(Y,Z). [Z@Y,true]"], [["d", 1], ["e", 2], ["f", 2]], None),
        ("minimize-tuple-minmax-var", ["{ sel(X) } :- dom(X).", "top(X) :- X = #max { V : sel(V) }.", ":~ top(X), dom(X). [X@1,X]"], [["dom", 1]], None),
        ("show-classical", ["{ -s(X) } :- d(X).", "#show -s/1.", "#show s/1."], [["d", 1]], None),
        ("external-plain", ["#external ext.", "#external on(X) : d(X).", "a(X) :- d(X), ext, not on(X).", "b :- on(_)."], [["d", 1]], None),
        ("external-defined-too", ["{ s(X) } :- d(X).", "#external s(X) : d(X).", "a :- s(X), X > 1."], [["d", 1]], None),
        ("heuristic-forms", ["{ s(X) } :- d(X).", "#heuristic s(X) : d(X). [X@1,true]", "#heuristic s(X) : d(X), d(Y), Y < X. [Y,factor]", "#heuristic s(1). [1,false]"], [["d", 1]], None),
        ("edge-forms", ["{ link(X,Y) } :- d(X), d(Y).", "#edge (X,Y) : link(X,Y).", "#edge (a,b).", "#edge (X,Y;Y,X) : link(X,Y), X < Y."], [["d", 1]], None),
        ("project-forms", ["{ s(X) } :- d(X).", "t(X) :- s(X), X > 1.", "#project s/1.", "#project t(X) : s(X).", "#project t(1)."], [["d", 1]], None),
        ("defined-forms", ["#defined q/1.", "#defined r/0.", "a(X) :- d(X), not q(X).", "b :- r."], [["d", 1]], None),
        ("const-everywhere", ["#const n = 3.", "#const m = n*2.", "#const c = blue.", "lim(n).", "col(c).", "num(1..n).", "{ s(X) : num(X) } n.", "a(S) :- S = #sum { X*n,X : s(X) }, S < m."], None, None),
        ("const-in-guards", ["#const n = 2.", "{ s(X) } :- d(X).", ":- n < #count { X : s(X) }.", "a :- #sum { n,X : s(X) } >= n.", "b(M) :- M = #max { n ; X : s(X) }."], [["d", 1]], None),
        ("program-parts", ["a(X) :- d(X).", "#program step(t).", "b(X,t) :- d(X), a(X).", "{ c(X,t) } :- b(X,t-1).", "#program check(t).", ":- c(X,t), not a(X).", "#program base.", "e(X) :- a(X), X > 1."], [["d", 1]], None),
        ("program-part-only", ["#program step(t).", "b(X,t) :- d(X).", "m(M,t) :- M = #max { X : b(X,t) }."], [["d", 1]], None),
        ("head-agg-known-unused", ["1 #sum { X,a : p(X) : dom(X) } 2.", "ok :- p(_)."], [["dom", 1]], None),
        ("head-agg-cond-unused-victim", ["aux(X,Y) :- d(X), d(Y), X < Y.", "1 #sum { X,Y : sel(X) : aux(X,Y) }.", "ok :- sel(_)."], [["d", 1]], [["ok", 0], ["sel", 1]]),
        ("head-agg-cond-inline-victim", ["mid(X) :- d(X), X > 1.", "1 #max { X : sel(X) : mid(X) }.", "ok :- sel(_)."], [["d", 1]], [["ok", 0], ["sel", 1]]),
        ("head-agg-guard-from-minmax", ["{ sel(X) } :- d(X).", "top(M) :- M = #max { X : sel(X) }, d(M).", "#count { X : a(X) : d(X) } M :- top(M).", "ok :- a(_)."], [["d", 1]], None),
        ("head-agg-symmetric-body", ["{ sel(X) } :- d(X).", "1 #count { Z : foo(Z,Y) : d(Z) } :- sel(X), sel(Y), X != Y."], [["d", 1]], None),
        ("head-agg-global-in-element", ["{ sel(X) } :- d(X).", "#sum { X : foo(X,Y) : d(X) } 3 :- sel(Y).", "ok :- foo(X,_), X > 1."], [["d", 1]], [["ok", 0], ["sel", 1]]),
        ("copy-chain-unused", ["b(X) :- d(X).", "a(X) :- b(X).", "c(X) :- a(X), X > 1."], [["d", 1]], [["c", 1]]),
        ("exline-weak-weight-and-body", ["{ p(X) } :- d(X).", ":~ p(X), r(X-1). [X+1@1,X]"], [["d", 1]], None),
        ("exline-weak-priority-and-body", ["{ p(X) } :- d(X).", ":~ p(X), r(X-1). [X@X+1,X]"], [["d", 1]], None),
        ("exline-weak-tuple-and-body", ["{ p(X) } :- d(X).", ":~ p(X), r(X-1). [X@1,X*2]"], [["d", 1]], None),
        ("exline-weak-weight-and-tuple", ["{ p(X) } :- d(X).", ":~ p(X). [X+1@1,X*2]"], [["d", 1]], None),
        ("exline-weak-weight-and-condition", ["{ p(X) } :- d(X).", ":~ p(X), not r(Y) : d(Y), p(Y+1). [X+1@1,X]"], [["d", 1]], None),
        ("exline-weak-priority-and-condition", ["{ p(X) } :- d(X).", ":~ p(X), not r(Y) : d(Y), p(Y+1). [X@X+1,X]"], [["d", 1]], None),
        ("exline-weak-tuple-and-condition", ["{ p(X) } :- d(X).", ":~ p(X), r(Y) : p(Y+1), q(Y-1). [X@1,X*2]"], [["d", 1]], None),
        ("exline-weak-negweight-and-condition", ["{ p(X) } :- d(X).", ":~ p(X), r(Y) : p(Y+1). [-X@1]"], [["d", 1]], None),
        ("exline-rule-head-and-condition", ["{ p(X) } :- d(X).", "a(X+1) :- p(X), r(Y) : p(Y+1)."], [["d", 1]], None),
        ("exline-minimize-two-elements", ["{ p(X) } :- d(X).", "#minimize { X+1@1,X : p(X), r(X-1) ; X-1@2,X : p(X), d(X+1) }."], [["d", 1]], None),
        ("pingpong-chain-of-three", ["a(X+1) :- q(X).", "b(X+1) :- a(X).", "c(X+1) :- b(X).", "s(X) :- c(X+1)."], None, [["s", 1]]),
        ("pingpong-arith-in-condlit", ["a(X+1) :- q(X).", "s :- a(X+1) : q(X), r(X-1).", "t :- not a(X+1) : q(X)."], None, [["s", 0], ["t", 0]]),
        ("pingpong-arith-in-agg-atoms", ["a(X+1) :- q(X).", "s(Y) :- Y = #sum { X+1 : a(X+1) }.", "t(Y) :- Y = #max { X+1 : a(X-1), q(X) }."], None, [["s", 1], ["t", 1]]),
        ("head-agg-count-body", ["#count { X : p(X) : dom(X) } 2 :- go.", "ok :- p(_)."], [["dom", 1], ["go", 0]], None),
    ]
    for tag, lines, inn, outp in progs:
        _add(out, tag, lines, inn=inn, outp=outp)

    # bounded choice rules whose value is then aggregated (the trigger of sum_chains)
    choices = [
        ("global-bound1", "{ shift(D,L) } 1 :- day(D), len(L)."),
        ("cond-bound1", "{ shift(D,L) : len(L) } 1 :- day(D)."),
        ("cond-exact1", "1 { shift(D,L) : len(L) } 1 :- day(D)."),
        ("cond-bound2", "{ shift(D,L) : len(L) } 2 :- day(D)."),
        ("two-elements", "{ shift(D,L) : len(L) ; off(D) } 1 :- day(D)."),
    ]
    aggs = [
        ("sum-assign", "a(X) :- X = #sum { L,D : shift(D,L) }."),
        ("count-assign", "a(X) :- X = #count { L,D : shift(D,L) }."),
        ("max-assign", "a(X) :- X = #max { L,D : shift(D,L) }."),
        ("sum-weak", ":~ shift(D,L). [L@1,D]"),
        ("sum-perday", "a(D,X) :- day(D), X = #sum { L : shift(D,L) }."),
    ]
    for (cn, c), (an, a) in itertools.product(choices, aggs):
        _add(out, f"boundchoice-{cn}-{an}", [c, a], inn=[["day", 1], ["len", 1]])


# ------------------------------------------------------------------------------------------
# G. ping-pong candidates: arithmetic in heads / body atoms / equalities x consumers
# ------------------------------------------------------------------------------------------
def pingpong(out):
    producers = [
        # (name, rules, arity of p)
        ("head-and-body-arith", ["p(X+1) :- q(X-1), r(2*X)."], 1),
        ("equality-to-head", ["p(Y) :- q(X), Y = X+1."], 1),
        ("binary-head-arith", ["p(X+1,Y) :- q(X-1), r(2*X), Y = X*X."], 2),
        ("body-atom-arith-only", ["p(X) :- q(X+1)."], 1),
        ("choice-head-arith", ["{ p(X+1) : q(X) }."], 1),
        ("aggregate-result-arith", ["p(Y+1) :- Y = #sum { X : q(X) }."], 1),
        ("equality-feeding-atom", ["p(Z) :- q(X), X = Y+1, r(Y), Z = Y*2."], 1),
        ("equality-reversed", ["p(X) :- q(X), X+1 = Y, r(Y)."], 1),
    ]
    consumers = [
        ("output", [], None),
        ("unused", ["s :- {P:_}."], [["s", 0]]),
        ("arith-consumer", ["s(X) :- {P:X+1}."], [["s", 1]]),
        ("equality-consumer", ["s(Z) :- {P:X}, Z = X-1, t(Z+1)."], [["s", 1]]),
        ("max-consumer", ["s(M) :- M = #max { X+1 : {P:X} }."], [["s", 1]]),
        ("self-join", ["s :- {P:X}, {P:X+1}."], [["s", 0]]),
        ("constraint-weak", [":- {P:X}, {P:X+2}.", ":~ {P:X}, r(X-1). [X+1@2,X]"], None),
    ]

    def patom(arity, arg):
        return f"p({arg})" if arity == 1 else f"p({arg},_)"

    for (pn, prules, ar), (cn, crules, outp) in itertools.product(producers, consumers):
        lines = list(prules)
        for c in crules:
            while "{P:" in c:
                i = c.index("{P:")
                j = c.index("}", i)
                c = c[:i] + patom(ar, c[i + 3 : j]) + c[j + 1 :]
            lines.append(c)
        if pn == "choice-head-arith" and cn == "output":
            lines.append("{ q(X) } :- d(X).")
        _add(out, f"pingpong-{pn}-{cn}", lines, outp=outp)


def programs():
    out = []
    head_aggregates(out)
    body_aggregates(out)
    theory(out)
    directives(out)
    terms(out)
    syntax(out)
    pingpong(out)
    return out
