"""Grid for the minmax_chains pass (ngo/minmax_aggregates.py, domains from ngo/dependency.py).

Side conditions spanned: which translation is chosen (`_simple_translation` for a one-sided bound in the
aggregate's own direction -- #max with </<=, #min with >/>=, and the mirrored operators under `not` -- versus
`_chain_translation` for everything else: `X =`, `=`/`!=` constants, bounds against the direction, variable
bounds, two-sided guards, `not`/`not not`, no guard at all); translatable element (condition over a choice /
derived predicate) versus static-only element, recursive (too complex) predicate, negated condition literal,
several elements (chains refuse, plain rules accept), weights that are expressions / constants / tuples;
body literals that share variables with the aggregate (groups: one, two, none, negated, comparison, non-static
group literal) versus literals that do not (flag, random(Y), use of the result variable); the conditions of
`_store_aggregate_head` (plain head predicate with exactly one defining body, variable arguments, result
variable in the head) and of the consumers `_replace_results_in_sum_agg_elem` / `_replace_results_in_minimize`
(weight V or -V versus V*2, tuple covers / does not cover the remaining variables, potentially unifying tuples
of other elements / other objectives, extra conditions, #sum+ / other guards, #minimize / #maximize / :~);
aggregates directly inside a weak constraint; two producers in one program; and a few programs without a
domain anchor (known: an empty candidate domain loses the #inf/#sup result).

Most programs carry the facts `person(1). skill(1,2).` (also given by the instance) so that the candidate
domain is never empty and the known empty-domain defect does not mask everything else.  Producers that feed a
#sum / objective exclude #inf/#sup with `X != #inf`, otherwise clingo reports "tuple ignored" for the source
and the harness would discard every instance.
"""
import itertools

OPS = ["<", "<=", ">", ">=", "=", "!="]
FUNCS = ["max", "min"]
CHOICE = "{ sel(P,V) } :- skill(P,V)."
ANCHOR = ["person(1).", "skill(1,2)."]
IN_G = [["person", 1], ["skill", 2]]


def _border(func):
    return "#inf" if func == "max" else "#sup"


def programs():
    out = []
    seen = set()

    def add(lines, tag, inn=None, outp=None):
        text = "\n".join(lines) + "\n"
        if text in seen:
            return
        seen.add(text)
        rec = {"program": text, "tag": tag}
        if inn is not None:
            rec["in"] = [list(x) for x in inn]
        if outp is not None:
            rec["out"] = [list(x) for x in outp]
        out.append(rec)

    def grouped(rule_lines, tag, extra_in=(), choice=CHOICE, anchor=ANCHOR, pre=()):
        add([choice] + list(anchor) + list(pre) + list(rule_lines), tag, IN_G + [list(x) for x in extra_in])

    # ------------------------------------------------------------------ 1. guard x sign x function
    for func in FUNCS:
        agg = "#%s{V : sel(P,V)}" % func
        for sign in ["", "not "]:
            stag = "neg" if sign else "pos"
            for op in OPS:
                grouped(["ok(P) :- person(P), %s2 %s %s." % (sign, op, agg)], "guard-const-left-%s" % stag)
                grouped(
                    ["ok(P,B) :- person(P), lim(B), %sB %s %s." % (sign, op, agg)],
                    "guard-var-left-%s" % stag,
                    [["lim", 1]],
                )
                if op not in ("<=", ">"):
                    add(
                        ["{ sel(V) } :- val(V).", "val(2).", "ok :- %s2 %s #%s{V : sel(V)}." % (sign, op, func)],
                        "guard-const-left-nogroup-%s" % stag,
                        [["val", 1]],
                    )
                if op == "=" or (op in ("<", ">") and not sign):
                    # the bound comes from a literal that also carries the group variable
                    grouped(
                        ["ok(P,B) :- limit(P,B), %sB %s %s." % (sign, op, agg)],
                        "guard-var-left-from-group-literal-%s" % stag,
                        [["limit", 2]],
                        anchor=["limit(1,2).", "skill(1,2)."],
                    )
            for both in [
                "1 <= %s <= 3",
                "3 >= %s > 1",
                "1 != %s != 3",
            ]:
                grouped(["ok(P) :- person(P), %s%s." % (sign, both % agg)], "guard-both-%s" % stag)
            grouped(
                ["ok(P,B) :- person(P), lim(B), %sB <= %s <= 3." % (sign, agg)],
                "guard-both-var-%s" % stag,
                [["lim", 1]],
            )
        for op in ["<", ">="]:  # clingo's parser turns a lone right guard into a left guard
            grouped(["ok(P) :- person(P), %s %s 2." % (agg, op)], "guard-const-right-pos")
            grouped(
                ["ok(P,B) :- person(P), lim(B), %s %s B." % (agg, op)],
                "guard-var-right-pos",
                [["lim", 1]],
            )
        grouped(["ok(P,X) :- person(P), X = %s." % agg], "guard-assign")
        grouped(["ok(P,X) :- person(P), X = %s <= 3." % agg], "guard-assign-and-bound")
        grouped(["ok(P,X) :- person(P), 1 <= %s = X." % agg], "guard-assign-and-bound")
        grouped(["ok(P,X,Y) :- person(P), X = %s = Y." % agg], "guard-assign-twice")
        grouped(["ok(P) :- person(P), %s." % agg], "guard-none")
        for op in ["<", ">"]:
            grouped(["ok(P) :- person(P), not not 2 %s %s." % (op, agg)], "guard-double-negation")

    # ------------------------------------------------------------------ 2. element conditions, X = agg
    elems = [
        ("elem-static-only", [], "V : skill(P,V)", [], CHOICE),
        ("elem-choice", [], "V : sel(P,V)", [], CHOICE),
        ("elem-static-and-choice", [], "V : skill(P,V), sel(P,V)", [], CHOICE),
        ("elem-derived", ["d(P,V) :- sel(P,V), not blocked(V)."], "V : d(P,V)", [["blocked", 1]], CHOICE),
        (
            "elem-derived-recursive",
            ["r(P,V) :- sel(P,V).", "r(P,V) :- r(P,W), succ(W,V)."],
            "V : r(P,V)",
            [["succ", 2]],
            CHOICE,
        ),
        ("elem-negated-choice", [], "V : skill(P,V), not sel(P,V)", [], CHOICE),
        ("elem-derived-by-negation", ["d(P,V) :- skill(P,V), not sel(P,V)."], "V : d(P,V)", [], CHOICE),
        ("elem-derived-two-rules", ["d(P,V) :- sel(P,V).", "d(P,V) :- extra(P,V)."], "V : d(P,V)", [["extra", 2]], CHOICE),
        ("elem-comparison", [], "V : sel(P,V), V > 1", [], CHOICE),
        ("elem-weight-times", [], "V*2 : sel(P,V)", [], CHOICE),
        ("elem-weight-minus", [], "-V : sel(P,V)", [], CHOICE),
        ("elem-weight-plus-local", [], "V+W : sel(P,V), bonus(W)", [["bonus", 1]], CHOICE),
        ("elem-weight-function", [], "f(V) : sel(P,V)", [], CHOICE),
        ("elem-weight-constant", [], "1 : sel(P,V)", [], CHOICE),
        ("elem-tuple-two-terms", [], "V,T : sel(P,V), kind(V,T)", [["kind", 2]], CHOICE),
        ("elem-two-elements", [], "V : sel(P,V); W : alt(P,W)", [["alt", 2]], CHOICE),
        ("elem-two-elements-constant", [], "V : sel(P,V); 0 : person(P)", [], CHOICE),
        ("elem-local-join", [], "V : sel(Q,V), friend(P,Q)", [["friend", 2]], CHOICE),
        ("elem-anonymous-group", [], "V : sel(_,V)", [], CHOICE),
        ("elem-choice-with-bounds", [], "V : sel(P,V)", [], "1 { sel(P,V) : skill(P,V) } 2 :- person(P)."),
        ("elem-disjunction", [], "V : sel(P,V)", [], "sel(P,V) ; nsel(P,V) :- skill(P,V)."),
        ("elem-choice-also-input", [], "V : sel(P,V)", [["sel", 2]], CHOICE),
    ]
    for func in FUNCS:
        for tag, pre, elem, xin, choice in elems:
            anchor = list(ANCHOR)
            if "friend" in elem:
                anchor = anchor + ["friend(1,1)."]
            if "bonus" in elem:
                anchor = anchor + ["bonus(1)."]
            if "kind" in elem:
                anchor = anchor + ["kind(2,a)."]
            grouped(
                ["best(P,X) :- person(P), X = #%s{%s}." % (func, elem)],
                tag,
                xin,
                choice=choice,
                anchor=anchor,
                pre=pre,
            )
        # element shapes through the plain-rule translation (bound in the aggregate's own direction)
        fwd = "<" if func == "max" else ">"
        bwd = ">" if func == "max" else "<"
        simple = [
            ("simple-two-elements", "V : sel(P,V); W : alt(P,W)", [["alt", 2]]),
            ("simple-local-join", "V : sel(Q,V), friend(P,Q)", [["friend", 2]]),
            ("simple-weight-times", "V*2 : sel(P,V)", []),
            ("simple-negated-choice", "V : skill(P,V), not sel(P,V)", []),
        ]
        for tag, elem, xin in simple:
            grouped(["ok(P) :- person(P), 2 %s #%s{%s}." % (fwd, func, elem)], tag + "-pos", xin)
            grouped(["ok(P) :- person(P), not 2 %s #%s{%s}." % (bwd, func, elem)], tag + "-neg", xin)
        grouped(["ok(P) :- person(P), 2 %s #%s{V : skill(P,V)}." % (fwd, func)], "simple-static-only")
        grouped(
            ["ok(P,V0) :- person(P), lim(V0), V0 %s #%s{V : sel(P,V)}." % (fwd, func)],
            "simple-variable-name-clash",
            [["lim", 1]],
        )
        grouped(
            ["ok(P) :- person(P), 2 %s= #%s{V : sel(P,V); W : alt(P,W), sel(P,W)}." % (fwd, func)],
            "simple-two-elements-both-dynamic",
            [["alt", 2]],
        )

    # ------------------------------------------------------------------ 3. groups / rest of the body
    for func in FUNCS:
        agg = "#%s{V : sel(P,V)}" % func
        grouped(["best(X) :- X = %s." % agg], "group-none")
        grouped(["best(X) :- X = #%s{V : sel(1,V)}." % func], "group-constant")
        grouped(["best(P,X) :- X = %s, person(P)." % agg], "group-literal-after")
        grouped(["best(P,X) :- person(P), flag, X = %s." % agg], "group-plus-flag", [["flag", 0]])
        grouped(["best(P,X) :- person(P), random(Y), X = %s." % agg], "group-plus-unrelated-variable", [["random", 1]])
        add(
            [CHOICE, "team(1,1).", "skill(1,2).", "best(P,X) :- team(P,Y), X = %s." % agg],
            "group-extra-variable-projected",
            [["team", 2], ["skill", 2]],
        )
        grouped(["best(P,X) :- person(P), not excl(P), X = %s." % agg], "group-negated-literal", [["excl", 1]])
        grouped(["best(P,X) :- person(P), P != 3, X = %s." % agg], "group-comparison")
        grouped(
            ["{ excl(P) } :- person(P).", "best(P,X) :- person(P), not excl(P), X = %s." % agg],
            "group-negated-literal-non-static",
        )
        grouped(
            ["best(P,X) :- person(P), X = %s, good(Q) : friend(P,Q)." % agg],
            "group-conditional-literal",
            [["good", 1], ["friend", 2]],
        )
        add(
            [
                CHOICE,
                "pair(1,1).",
                "skill(1,2).",
                "link(1,2).",
                "best(P,Q,X) :- pair(P,Q), X = #%s{V : sel(P,V), link(Q,V)}." % func,
            ],
            "group-two-variables",
            [["pair", 2], ["skill", 2], ["link", 2]],
        )
        grouped(
            ["best(P,X) :- person(P), lim(V), X = %s." % agg],
            "group-weight-variable-global",
            [["lim", 1]],
            anchor=ANCHOR + ["lim(2)."],
        )
        grouped(["best(P,X) :- person(P), X = %s, good(X)." % agg], "group-result-used-in-literal", [["good", 1]])
        grouped(["best(P,X) :- person(P), X = %s, X > 1." % agg], "group-result-used-in-comparison")
        grouped(["{ best(P,X) } :- person(P), X = %s." % agg], "group-head-choice")
        grouped([":- person(P), X = %s, bad(X)." % agg], "group-constraint", [["bad", 1]])
        grouped([":- person(P), 2 = %s." % agg], "group-constraint-constant")
        grouped(["best(P,X+1) :- person(P), X = %s, X != %s." % (agg, _border(func))], "group-head-arithmetic")
        add(
            [CHOICE, "{ person(P) } :- cand(P).", "cand(1).", "skill(1,2).", "best(P,X) :- person(P), X = %s." % agg],
            "group-literal-non-static",
            [["cand", 1], ["skill", 2]],
        )
        grouped(
            ["best(P,X,C) :- person(P), X = %s, C = #count{W : sel(P,W)}." % agg],
            "group-other-aggregate-count",
        )
        grouped(
            ["best(P,X,C) :- person(P), X = %s, C = #count{W : skill(P,W)}." % agg],
            "group-other-aggregate-static",
        )
        other = "min" if func == "max" else "max"
        grouped(
            ["both(P,X,Y) :- person(P), X = %s, Y = #%s{W : sel(P,W)}." % (agg, other)],
            "group-two-aggregates-one-rule",
        )
        grouped(
            ["both(P,X,Y) :- person(P), X = %s, Y = #%s{W : sel(P,W), W > 1}." % (agg, func)],
            "group-two-aggregates-one-rule-same-function",
        )
        grouped(
            ["both(P,X,Y) :- person(P), X = %s, Y = #%s{V : sel(P,V), V > 1}." % (agg, func)],
            "group-two-aggregates-shared-local-name",
        )
        add(
            [
                "{ sel(V) } :- val(V).",
                "val(2).",
                "both(X,Y) :- X = #%s{V : sel(V)}, Y = #%s{W : sel(W), W > 1}." % (func, func),
            ],
            "nogroup-two-aggregates-one-rule-same-function-known",
            [["val", 1]],
        )
        add(
            [
                "{ sel(V) } :- val(V).",
                "val(2).",
                "both(X,Y) :- X = #%s{V : sel(V)}, Y = #%s{W : sel(W)}." % (func, other),
            ],
            "nogroup-two-aggregates-one-rule",
            [["val", 1]],
        )

    # ------------------------------------------------------------------ 4. consumers of the result predicate
    def producer(func, head="best(P,X)", mid=""):
        return "%s :- person(P), %sX = #%s{V : sel(P,V)}, X != %s." % (head, mid, func, _border(func))

    sums = [
        ("use-sum-covering", ["total(S) :- S = #sum{V,P : best(P,V)}."], []),
        ("use-sum-negative-weight", ["total(S) :- S = #sum{-V,P : best(P,V)}."], []),
        ("use-sum-not-covering", ["total(S) :- S = #sum{V : best(P,V)}."], []),
        ("use-sum-extra-condition", ["total(S) :- S = #sum{V,P : best(P,V), special(P)}."], [["special", 1]]),
        ("use-sum-extra-condition-on-value", ["total(S) :- S = #sum{V,P : best(P,V), V > 1}."], []),
        ("use-sum-extra-static-on-value", ["total(S) :- S = #sum{V,P : best(P,V), skill(P,V)}."], []),
        ("use-sum-weight-not-simple", ["total(S) :- S = #sum{V*2,P : best(P,V)}."], []),
        ("use-sum-other-element-distinct", ["total(S) :- S = #sum{V,P : best(P,V); 5,x : person(x)}."], []),
        ("use-sum-other-element-unifying", ["total(S) :- S = #sum{V,P : best(P,V); W,Q : bonus(Q,W)}."], [["bonus", 2]]),
        ("use-sumplus", ["total(S) :- S = #sum+{V,P : best(P,V)}."], []),
        ("use-sum-lower-bound", ["big :- 3 <= #sum{V,P : best(P,V)}."], []),
        ("use-sum-constraint", [":- #sum{V,P : best(P,V)} > 4."], []),
        ("use-sum-function-tuple", ["total(S) :- S = #sum{V,f(P) : best(P,V)}."], []),
        ("use-sum-value-in-tuple", ["total(S) :- S = #sum{V,P,V : best(P,V)}."], []),
        ("use-sum-negated-result", ["total(S) :- S = #sum{V,P : skill(P,V), not best(P,V)}."], []),
        ("use-sum-constant-group", ["total(S) :- S = #sum{V,one : best(1,V)}."], []),
        ("use-sum-grouped-by-body", ["total(P,S) :- person(P), S = #sum{V,P : best(P,V)}."], []),
        ("use-count-not-sum", ["total(S) :- S = #count{V,P : best(P,V)}."], []),
    ]
    mins = [
        ("use-minimize-covering", ["#minimize{V@1,P : best(P,V)}."], []),
        ("use-maximize-covering", ["#maximize{V@1,P : best(P,V)}."], []),
        ("use-weak-covering", [":~ best(P,V). [V@1,P]"], []),
        ("use-weak-negative-weight", [":~ best(P,V). [-V@1,P]"], []),
        ("use-minimize-not-covering", ["#minimize{V : best(P,V)}."], []),
        ("use-minimize-priority-variable", ["#minimize{V@P,P : best(P,V)}."], []),
        ("use-weak-extra-condition", [":~ best(P,V), special(P). [V@1,P]"], [["special", 1]]),
        ("use-weak-extra-condition-on-value", [":~ best(P,V), V > 1. [V@1,P]"], []),
        ("use-minimize-weight-not-simple", ["#minimize{V*V,P : best(P,V)}."], []),
        ("use-minimize-weight-not-simple-value-tuple", [":~ best(P,V). [V*V@0,V]"], []),
        ("use-weak-value-in-tuple", [":~ best(P,V). [V@1,P,V]"], []),
        ("use-minimize-other-unifying", ["#minimize{V,P : best(P,V)}.", "#minimize{W,Q : cost(Q,W)}."], [["cost", 2]]),
        ("use-minimize-other-distinct", ["#minimize{V,P,m : best(P,V)}.", "#minimize{W,Q,c : cost(Q,W)}."], [["cost", 2]]),
        ("use-minimize-other-priority", ["#minimize{V@1,P : best(P,V)}.", "#minimize{W@2,Q : cost(Q,W)}."], [["cost", 2]]),
        ("use-weak-constant-group", [":~ best(1,V). [V@1,one]"], []),
    ]
    for func in FUNCS:
        for tag, cons, xin in sums + mins:
            grouped([producer(func)] + cons, tag, xin)
        # the natural shape (no exclusion of #inf/#sup): clingo warns "tuple ignored" on the source
        nat = "best(P,X) :- person(P), X = #%s{V : sel(P,V)}." % func
        if func == "max":
            grouped([nat, "total(S) :- S = #sum{V,P : best(P,V)}."], "use-natural-discarded")
        else:
            grouped([nat, "#minimize{V@1,P : best(P,V)}."], "use-natural-discarded")
        # same without the exclusion, made checkable by a selected fact: the extreme value always exists
        fact = ["sel(1,2).", "skill(1,2)."]
        natc = "best(X) :- X = #%s{V : sel(1,V)}." % func
        grouped([natc, "total(S) :- S = #sum{V : best(V)}."], "use-natural-fact-sum", anchor=fact)
        grouped([natc, "total(S) :- S = #sum{-V,t : best(V)}."], "use-natural-fact-sum", anchor=fact)
        grouped([natc, "#minimize{V@1 : best(V)}."], "use-natural-fact-minimize", anchor=fact)
        grouped([natc, "#maximize{V@1,t : best(V)}."], "use-natural-fact-minimize", anchor=fact)
        # two group variables: the tuple covers one or both of them
        pair = ["pair(1,1).", "skill(1,2).", "link(1,2)."]
        prod2 = "best(P,Q,X) :- pair(P,Q), X = #%s{V : sel(P,V), link(Q,V)}, X != %s." % (func, _border(func))
        for tup in ["V,P", "V,P,Q"]:
            add(
                [CHOICE] + pair + [prod2, "total(S) :- S = #sum{%s : best(P,Q,V)}." % tup],
                "use-sum-two-group-variables",
                [["pair", 2], ["skill", 2], ["link", 2]],
            )

    # near misses of _store_aggregate_head, and producers whose rule has more conditions than the chain
    sum_c = "total(S) :- S = #sum{V,P : best(P,V)}."
    min_c = "#minimize{V@1,P : best(P,V)}."
    for func in FUNCS:
        b = _border(func)
        agg = "#%s{V : sel(P,V)}" % func
        grouped(
            [producer(func), "best(P,0) :- person(P), fallback(P).", sum_c],
            "store-second-defining-rule",
            [["fallback", 1]],
        )
        grouped(
            [producer(func), "best(P,0) :- person(P), fallback(P).", min_c],
            "store-second-defining-rule",
            [["fallback", 1]],
        )
        grouped([producer(func, "best(P+1,X)"), sum_c], "store-head-arithmetic")
        grouped([producer(func, "{ best(P,X) }"), min_c], "store-head-choice")
        grouped([producer(func, "best(X,P)"), "total(S) :- S = #sum{V,P : best(V,P)}."], "store-head-swapped")
        grouped([producer(func, "best(X)"), "total(S) :- S = #sum{V : best(V)}."], "store-head-without-group")
        grouped([producer(func, "best(X)"), "#minimize{V@1 : best(V)}."], "store-head-without-group")
        grouped([producer(func, "best(P,k,X)"), "total(S) :- S = #sum{V,P : best(P,k,V)}."], "store-head-constant")
        grouped([producer(func, "best(P,P,X)"), "#minimize{V@1,P : best(P,P,V)}."], "store-head-duplicate-variable")
        grouped(
            [producer(func, "best(P,P,X)"), "total(S) :- S = #sum{V,P,Q : best(P,Q,V)}."],
            "store-head-duplicate-variable",
        )
        grouped([producer(func, "best(P,X,X)"), "#minimize{V@1,P : best(P,V,V)}."], "store-head-result-twice")
        for cons in (sum_c, min_c):
            grouped([producer(func, mid="flag, "), cons], "store-producer-extra-flag", [["flag", 0]])
            grouped([producer(func, mid="allowed(P), "), cons], "store-producer-extra-group-literal", [["allowed", 1]])
            if func == "max":
                grouped(["best(P,X) :- person(P), X = %s, X > 2." % agg, cons], "store-producer-bound-on-result")
                grouped(["best(P,X) :- person(P), X = %s > 2, X != #inf." % agg, cons], "store-producer-second-guard")
            else:
                grouped(["best(P,X) :- person(P), X = %s, X < 3." % agg, cons], "store-producer-bound-on-result")
                grouped(["best(P,X) :- person(P), X = %s < 3, X != #sup." % agg, cons], "store-producer-second-guard")
            grouped(
                ["best(P,X) :- person(P), X = %s, good(X)." % agg, cons],
                "store-producer-result-filter",
                [["good", 1]],
                anchor=ANCHOR + ["good(2)."],
            )

    # ------------------------------------------------------------------ 5. aggregate inside a weak constraint
    for func in FUNCS:
        b = _border(func)
        agg = "#%s{V : sel(P,V)}" % func
        fwd = "<" if func == "max" else ">"
        bwd = ">" if func == "max" else "<"
        grouped([":~ person(P), X = %s, X != %s. [X@1,P]" % (agg, b)], "weak-agg-covering")
        grouped([":~ person(P), X = %s, X != %s. [X@1]" % (agg, b)], "weak-agg-not-covering")
        grouped([":~ person(P), X = %s, X != %s. [-X@1,P]" % (agg, b)], "weak-agg-negative-weight")
        grouped([":~ person(P), X = %s, X != %s. [1@1,P,X]" % (agg, b)], "weak-agg-result-in-tuple-only")
        grouped(
            [":~ person(P), random(Y), X = %s, X != %s. [X@1,P,Y]" % (agg, b)],
            "weak-agg-unrelated-variable",
            [["random", 1]],
        )
        grouped([":~ person(P), X = %s, X != %s. [X@P,P]" % (agg, b)], "weak-agg-priority-variable")
        grouped([":~ person(P), 2 %s %s. [1@1,P]" % (bwd, agg)], "weak-agg-bound-chain")
        fact = ["sel(1,2).", "skill(1,2)."]
        for wt in ["X@1", "-X@1", "X@1,t"]:
            grouped([":~ X = #%s{V : sel(1,V)}. [%s]" % (func, wt)], "weak-agg-natural-fact", anchor=fact)
        grouped([":~ person(P), 2 %s %s. [1@1,P]" % (fwd, agg)], "weak-agg-bound-simple")
        grouped(
            [":~ person(P), 2 %s #%s{V : sel(P,V); W : alt(P,W)}. [1@1,P]" % (fwd, func)],
            "weak-agg-bound-simple-two-elements",
            [["alt", 2]],
        )
        grouped(
            [":~ person(P), X = %s, X != %s. [X@1,P]" % (agg, b), "#minimize{W@1,Q : cost(Q,W)}."],
            "weak-agg-other-objective-unifying",
            [["cost", 2]],
        )

    # ------------------------------------------------------------------ 6. two producers / two uses in one program
    hi = "hi(P,X) :- person(P), X = #max{V : sel(P,V)}, X != #inf."
    lo = "lo(P,X) :- person(P), X = #min{V : sel(P,V)}, X != #sup."
    grouped([hi, lo, "total(S) :- S = #sum{V,P,max : hi(P,V); V,P,min : lo(P,V)}."], "two-producers-sum-distinct-tuples")
    grouped([hi, lo, "total(S) :- S = #sum{V,P : hi(P,V); V,P : lo(P,V)}."], "two-producers-sum-unifying-tuples")
    grouped([hi, lo, "spread(S) :- S = #sum{V,P,max : hi(P,V); -V,P,min : lo(P,V)}."], "two-producers-sum-distinct-tuples")
    grouped([hi, lo, "#minimize{V,P,a : hi(P,V)}.", "#maximize{V,P,b : lo(P,V)}."], "two-producers-objectives-distinct")
    grouped([hi, lo, "#minimize{V,P : hi(P,V)}.", "#maximize{V,P : lo(P,V)}."], "two-producers-objectives-unifying")
    grouped([hi, lo, "gap(P,X-Y) :- hi(P,X), lo(P,Y)."], "two-producers-plain-use")
    for func in FUNCS:
        b = _border(func)
        agg = "#%s{V : sel(P,V)}" % func
        grouped(
            [
                "best(P,X) :- person(P), X = %s, X != %s." % (agg, b),
                "good(P,X) :- person(P), X = #%s{V : sel(P,V), V > 1}, X != %s." % (func, b),
                "#minimize{V,P,b : best(P,V)}.",
                "#minimize{V,P,g : good(P,V)}.",
            ],
            "two-producers-same-function",
        )
        grouped(
            [producer(func), "total(S) :- S = #sum{V,P : best(P,V)}.", "#minimize{V@1,P : best(P,V)}."],
            "one-producer-sum-and-objective",
        )
        grouped(
            ["best(P,X) :- person(P), X = %s." % agg, "top(Y) :- Y = #%s{X : best(P,X)}." % func],
            "second-level-aggregate",
        )
        grouped(
            ["best(P,X) :- person(P), X = %s." % agg, "ok(P) :- person(P), 2 = %s." % agg],
            "two-rules-same-aggregate",
        )
        grouped(
            [producer(func), "total(S) :- S = #sum{V,P : best(P,V)}.", "half(S) :- S = #sum{V,P : best(P,V), special(P)}."],
            "one-producer-two-sums",
            [["special", 1]],
        )

    # ------------------------------------------------------------------ 7. no domain anchor (known: #inf/#sup lost)
    for func in FUNCS:
        agg = "#%s{V : sel(P,V)}" % func
        add([CHOICE, "person(1).", "best(P,X) :- person(P), X = #%s{V : skill(P,V), sel(P,V)}." % func], "empty-domain-known", IN_G)
        add(["{ sel(V) } :- val(V).", "best(X) :- X = #%s{V : sel(V)}." % func], "empty-domain-known", [["val", 1]])
        add([CHOICE, "person(1).", "ok(P) :- person(P), 2 != %s." % agg], "empty-domain-known", IN_G)
        add([CHOICE, "person(1).", "ok(P) :- person(P), 2 > %s." % agg], "empty-domain-known", IN_G)
        add([CHOICE, "person(1).", "ok(P) :- person(P), 2 < %s." % agg], "empty-domain-known", IN_G)
    return out
