"""Programs on which a pass has to choose among several candidates or to order a collection (C17): the result must not
depend on the iteration order of a set, i.e. on PYTHONHASHSEED or on the addresses of AST objects in a process."""
from __future__ import annotations


def programs():
    out = []

    def add(tag: str, prg: str, **kw):
        out.append({"program": prg, "tag": "order:" + tag, **kw})

    # projection: splits that carry two, three and four variables over to the auxiliary predicate
    add("projection-2", "reach(A,B,D) :- route(A,B,D), hop(A,B,C), toll(C,E), not waived(C,E).")
    add("projection-3", "reach(A,B,T,D) :- route(A,B,T,D), hop(A,B,T,C), toll(C,E), not waived(C,E).")
    add("projection-4", "reach(A,B,T,U,D) :- route(A,B,T,U,D), hop(A,B,T,U,C), toll(C,E), not waived(C,E).")
    add("projection-3-choice", "{ reach(A,B,T,D) } :- route(A,B,T,D), hop(A,B,T,C), toll(C,E), fee(E,F), F > 2.")
    add("projection-two-rules", "r1(A,B,T) :- e(A,B,T,X), f(X,Y), g(Y).\nr2(T,B,A) :- e(A,B,T,X), f(X,Y), not g(Y).")
    # minmax: several stored results in one element, several aggregates per rule, several rules
    base = "{ val(V) : cand(V) }.\nhi(X) :- X = #max { V : val(V) }.\nlo(Y) :- Y = #min { V : val(V) }.\n"
    add("minmax-two-results-in-sum", base + "spread(S) :- S = #sum { X,a : hi(X), lo(Y), Y > 0 }.\n#show spread/1.", **{"in": [["cand", 1]]})
    add("minmax-two-results-in-sum-2", base + "spread(S) :- S = #sum { Y,a : hi(X), lo(Y), X > 0 }.", **{"in": [["cand", 1]]})
    add("minmax-two-results-in-sum-3", base + "spread(S) :- S = #sum { X,a : hi(X), lo(Y), Y > 0 ; Y,b : lo(Y), hi(X), X > 2 }.", **{"in": [["cand", 1]]})
    add("minmax-two-results-objective", base + ":~ hi(X), lo(Y), Y > 0. [X@1,a]\n:~ lo(Y), hi(X). [Y@2,b]", **{"in": [["cand", 1]]})
    add("minmax-many", "{ s(P,V) } :- d(P,V).\nb1(P,X) :- p(P), X = #max { V : s(P,V) }.\nb2(P,X) :- p(P), X = #min { V : s(P,V) }.\nb3(X) :- X = #max { V : s(_,V) }.\nw(T) :- T = #sum { X,P : b1(P,X) ; Y,P,m : b2(P,Y) }.")
    # duplication: overlapping candidate sets of different sizes
    add("duplication-overlap", "h1(X) :- a(X,Y), b(Y,Z), c(Z), d(X).\nh2(X) :- a(X,Y), b(Y,Z), c(Z), e(X).\nh3(X) :- b(Y,Z), c(Z), d(X), f(Y).\nh4(X) :- a(X,Y), b(Y,Z), f(Z).")
    add("duplication-overlap-2", "h1 :- a, b, c, d.\nh2 :- a, b, c, e.\nh3 :- b, c, d, f.\nh4 :- c, d, a, g.\nh5 :- a, b, g.")
    add("duplication-many-vars", "h1(A,B,C,D) :- p(A,B), q(B,C), r(C,D), s1.\nh2(A,B,C,D) :- p(A,B), q(B,C), r(C,D), s2.\nh3(D,C,B,A) :- p(A,B), q(B,C), r(C,D), s3.")
    # symmetry: several groups, several compared positions
    add("symmetry-groups", ":- p(A,X), p(B,X), A != B, q(C,Y), q(D,Y), C != D.\n{ p(A,X) } :- dp(A,X).\n{ q(A,X) } :- dq(A,X).")
    add("symmetry-positions", ":- p(A,X,U), p(B,X,V), A != B, U != V.\n{ p(A,X,U) } :- dp(A,X,U).")
    add("symmetry-three", "bad(X) :- p(A,X), p(B,X), p(C,X), A != B, A != C, B != C.\n{ p(A,X) } :- dp(A,X).")
    # sum_chains / domains over several predicates and positions
    add("sumchains-two", "{ p(G,V,W) : d(G,V,W) } 1 :- g(G).\n{ q(G,V) : e(G,V) } 1 :- g(G).\n#minimize { V,G,p : p(G,V,_) ; W,G,pw : p(G,_,W) ; V,G,q : q(G,V) }.")
    add("domains-many", "{ a(X,Y) } :- da(X,Y).\n{ b(X,Y) } :- a(X,Y), db(Y).\nc(X,Y) :- a(X,Y), b(Y,X).\nm(X,M) :- da(X,_), M = #max { Y : c(X,Y) }.\nn(X,M) :- da(X,_), M = #min { Y : b(X,Y) }.")
    # unused / cleanup / inline with several candidates
    add("unused-many", "a(X,Y,Z) :- e(X,Y,Z).\nb(X,Y) :- a(X,Y,_).\nc(X) :- b(X,_).\nd(X) :- c(X), a(_,_,X).\nf :- d(_).\n#show f/0.")
    add("inline-many", "{ s(A,Y) } :- p(A,Y).\nh1(A,S) :- a(A), S = #sum { Y : s(A,Y) }.\nh2(A,S) :- a(A), S = #count { Y : s(A,Y) }.\nt1(X) :- X = #sum { S,V : h1(V,S) }.\nt2(X) :- X = #sum { S,V : h2(V,S) }.")
    add("math-many", "r(X,Y,Z) :- d(X), d(Y), d(Z), X+Y = Z, Z-X = Y, 2*X < Y+Z, A = X+1, B = Y+1, A < B.")
    return out
