"""Grid for the `duplication` pass (ngo/literal_duplication.py, property C10).

Side conditions spanned (firing side and near miss for each):
* a literal set is shared "up to variable renaming": same names / renamed / swapped names / a third occurrence
  fire; reversed literal order (anonymisation is order dependent) and merged variables (p(X,X) vs p(X,Y)) are
  near misses, for plain bodies and for every other kind of occurrence;
* the set must bind all of its variables (collect_binding_information_body): sets `q(Y), X<Y` / `not q(X), c`
  whose variable is bound outside must not be factored; operator terms p(X+1), p(X*2), p(X&1), p(|X|) ... probe
  the binding approximation itself;
* the set must be connected through its global variables (_filter_occurences): disconnected, partly
  disconnected, connected only by a comparison, zero-arity members;
* occurrence kinds: rule/constraint/choice bodies, conditions of conditional literals, elements of
  #count/#sum/#max body aggregates, `:~`, `#minimize`/`#maximize`, with the set's variables used in heads, other
  body literals, aggregate tuples, weights and priorities; conditions whose shared part leaves a global variable
  unbound, and conditional literals inside `:~` (not collected by the pass) are near misses;
* members that are conditional literals / body aggregates whose inner variable is bound by the set, is local
  in every occurrence, or is global in the rule but occurs only inside the condition;
* overlapping candidate sets of sizes 2-4 in 3 rules (which one wins depends on statement order);
* recursion: positive, through negation, through monotone / non-monotone aggregate elements and through the
  condition of a conditional literal whose head depends on the rule head (there a defined atom in the
  condition is not a conservative replacement);
* `V = t` / `not V != t` assignments that are substituted before matching, and unrelated statements with
  assignments, intervals and weak constraints that must be restored unchanged;
* an already used `__aux_N` predicate name.
"""
import itertools
import re

_VAR = re.compile(r"\b[A-Z][A-Za-z0-9]*\b")


def _ren(text, mapping):
    """rename variables simultaneously"""
    return _VAR.sub(lambda m: mapping.get(m.group(0), m.group(0)), text)


def _join(lits):
    return ", ".join(lits)


# ---------------------------------------------------------------------------------------------------------------
# family A: two/three rule bodies sharing a set; shape of the set x way the second occurrence is written
# ---------------------------------------------------------------------------------------------------------------
# name, literals of the set, variables usable outside, needs-outside-binder, choice rules (several answer sets)
SHAPES = [
    ("conn2", ["p(X,Y)", "q(Y)"], ["X", "Y"], False, []),
    ("same1", ["q(X)", "r(X)"], ["X"], False, []),
    ("disc", ["q(X)", "r(Y)"], ["X", "Y"], False, []),
    ("partdisc", ["p(X,Y)", "r(Z)"], ["X", "Z"], False, []),
    ("chain3", ["p(X,Y)", "p(Y,Z)", "q(Z)"], ["X", "Z"], False, []),
    ("cmp-in", ["p(X,Y)", "q(Y)", "X < Y"], ["X", "Y"], False, []),
    ("cmp-conn", ["q(X)", "r(Y)", "X < Y"], ["X", "Y"], False, []),
    ("neg", ["p(X,Y)", "not q(Y)"], ["X", "Y"], False, ["{ q(A) } :- dq(A)."]),
    ("anon", ["p(X,_)", "q(X)"], ["X"], False, []),
    ("neg-anon", ["q(X)", "not p(X,_)"], ["X"], False, ["{ p(A,B) } :- dp(A,B)."]),
    ("zero", ["c", "d"], [], False, ["{ c; d }."]),
    ("zero-mix", ["p(X,Y)", "c"], ["X", "Y"], False, ["{ c }."]),
    ("arith", ["p(X,Y)", "q(Y+1)"], ["X", "Y"], False, []),
    ("repeat", ["p(X,X)", "q(X)"], ["X"], False, []),
    ("const", ["p(X,1)", "q(X)"], ["X"], False, []),
    ("eq-bind", ["q(X)", "X+1 = Y"], ["X", "Y"], False, []),
    ("size4", ["p(X,Y)", "q(X)", "r(Y)", "X != Y"], ["X", "Y"], False, []),
    ("unbound-cmp", ["q(Y)", "X < Y"], ["X", "Y"], True, []),
    ("unbound-neg", ["not q(X)", "c"], ["X"], True, ["{ q(A) } :- dq(A).", "{ c }."]),
]

VARIANTS = ["same", "renamed", "swapped", "reversed", "merged", "third"]
CONTEXTS = ["head-first", "body-var", "head-all", "constraint", "cmp-outside"]


def _rule(ctx, idx, lits, vs, binder):
    """one statement containing the literal set"""
    body = list(lits)
    v0 = vs[0] if vs else None
    if binder or ctx == "body-var":
        body.append(f"s{idx}({v0})" if v0 else f"e{idx}")
    elif ctx == "cmp-outside" and v0:
        body.append(f"{v0} != {idx}")
    else:
        body.append(f"e{idx}")
    if ctx == "constraint" and idx == 2:
        return f":- {_join(body)}."
    if ctx == "head-all" and len(vs) > 1:
        return f"h{idx}({vs[0]},{vs[1]}) :- {_join(body)}."
    if v0:
        return f"h{idx}({v0}) :- {_join(body)}."
    return f"h{idx} :- {_join(body)}."


def _family_a(out):
    for (si, (name, lits, vs, binder, extra)), (vi, variant) in itertools.product(enumerate(SHAPES), enumerate(VARIANTS)):
        ctx = CONTEXTS[(si + vi) % len(CONTEXTS)]
        lines = list(extra)
        lines.append(_rule(ctx, 1, lits, vs, binder))
        mapping = {}
        lits2 = list(lits)
        if variant in ("renamed", "third"):
            mapping = {"X": "U", "Y": "V", "Z": "W"}
        elif variant == "swapped":
            mapping = {"X": "Y", "Y": "X"}
        elif variant == "merged":
            mapping = {"Y": "X", "Z": "X"}
        elif variant == "reversed":
            lits2 = list(reversed(lits))
        if variant == "third":
            lines.append(_rule(ctx, 2, lits, vs, binder))
            lits3 = [_ren(l, mapping) for l in lits]
            vs3 = [mapping.get(v, v) for v in vs]
            lines.append(_rule("head-first", 3, lits3, vs3, binder))
        else:
            lits2 = [_ren(l, mapping) for l in lits2]
            vs2 = []
            for v in vs:
                if mapping.get(v, v) not in vs2:
                    vs2.append(mapping.get(v, v))
            lines.append(_rule(ctx, 2, lits2, vs2, binder))
        out.append({"program": "\n".join(lines) + "\n", "tag": f"body-{name}-{variant}"})


# ---------------------------------------------------------------------------------------------------------------
# family B: kinds of occurrences (bodies, conditions, aggregate elements, objectives)
# ---------------------------------------------------------------------------------------------------------------
B_SHAPES = [
    ("conn2", ["p(X,Y)", "q(Y)"], "{ q(A) } :- dq(A)."),
    ("neg", ["p(X,Y)", "not q(Y)"], "{ q(A) } :- dq(A)."),
    ("cmp", ["q(X)", "r(Y)", "X < Y"], "{ r(A) } :- dr(A)."),
    ("zero-mix", ["p(X,Y)", "c"], "{ c }."),
]

B_KINDS = {
    "rule": "h{i}(X) :- {S}, e{i}.",
    "constraint": ":- {S}, e{i}.",
    "choice": "{{ k{i}(X) }} :- {S}, e{i}.",
    "cond-local": "g{i} :- e{i}, t(X) : {S}.",
    "cond-global": "g{i}(X) :- m(X), t(Y) : {S}.",
    "count": "g{i}(N) :- N = #count{{ X : {S} }}, e{i}.",
    "sum": "g{i}(N) :- N = #sum{{ Y,X : {S}, t(X) }}.",
    "agg-global": "g{i}(X) :- m(X), 2 <= #sum{{ Y : {S} }}.",
    "max": "g{i}(N) :- N = #max{{ Y : {S} }}, e{i}.",
    "weak": ":~ {S}, e{i}. [1@1,X]",
    "minimize": "#minimize{{ Y@1,X : {S}, e{i} }}.",
}


def _family_b(out):
    seconds = [k for k in B_KINDS if k != "rule"]
    for (name, lits, choice), second, first_same in itertools.product(B_SHAPES, seconds, (False, True)):
        first = second if first_same else "rule"
        s1 = _join(lits)
        s2 = _join(_ren(l, {"X": "U", "Y": "V"}) for l in lits)
        l1 = B_KINDS[first].replace("{S}", s1).replace("{i}", "1").replace("{{", "{").replace("}}", "}")
        l2 = _ren(B_KINDS[second], {"X": "U", "Y": "V"}).replace("{S}", s2).replace("{i}", "2")
        l2 = l2.replace("{{", "{").replace("}}", "}")
        out.append({"program": "\n".join([choice, l1, l2]) + "\n", "tag": f"occ-{first}+{second}-{name}"})
    # near miss: the second occurrence identifies two variables of the set
    for second in seconds:
        name, lits, choice = B_SHAPES[0]
        l1 = B_KINDS["rule"].replace("{S}", _join(lits)).replace("{i}", "1")
        s2 = _join(_ren(l, {"X": "U", "Y": "U"}) for l in lits)
        l2 = _ren(B_KINDS[second], {"X": "U", "Y": "U"}).replace("{S}", s2).replace("{i}", "2")
        l2 = l2.replace("{{", "{").replace("}}", "}")
        out.append({"program": "\n".join([choice, l1, l2]) + "\n", "tag": f"occ-merged-rule+{second}"})
    # near miss: the shared part of the condition does not bind the global variable Z
    for kind, tmpl in (
        ("cond", "g{i}(Z) :- m{i}(Z), t(Y) : q(Y), Y < Z."),
        ("count", "g{i}(Z) :- m{i}(Z), 1 <= #count{{ Y : q(Y), Y < Z }}."),
        ("sum-neg", "g{i}(Z) :- m{i}(Z), 3 <= #sum{{ Y : q(Y), not r(Z) }}."),
        ("cond-bound", "g{i}(Z) :- m{i}(Z), t(Y) : q(Y), p(Y,Z)."),
    ):
        lines = ["{ q(A) } :- dq(A)."]
        for i in ("1", "2"):
            lines.append(tmpl.replace("{i}", i).replace("{{", "{").replace("}}", "}"))
        out.append({"program": "\n".join(lines) + "\n", "tag": f"occ-unbound-global-{kind}"})


# ---------------------------------------------------------------------------------------------------------------
# family C: members with a local scope; variable E bound by the set / local everywhere / global but only inside
# ---------------------------------------------------------------------------------------------------------------
C_INNER = [
    ("cond", "b(N) : c(E,N)"),
    ("cond-neg", "not b(N) : c(E,N)"),
    ("count", "1 <= #count{ N : c(E,N) }"),
    ("sum-not", "not 2 <= #sum{ N : c(E,N) }"),
    ("cond-head", "b(N,E) : c(N)"),
]

C_BIND = {
    "in-set": ["h1(E) :- f(E); {CL}; e1.", "h2(E) :- f(E); {CL}; e2."],
    "outside": ["h1(E) :- e(E,F); f(F); {CL}.", "{ h2(E) } :- g(E,F); f(F); {CL}."],
    "local-vs-global": ["h1(F) :- f(F); {CL}; e1.", "h2(E) :- g(E,F); f(F); {CL}."],
    "both-local": ["h1(F) :- f(F); {CL}; e1.", "h2(F) :- f(F); {CL}; e2."],
    "zero": ["h1(E) :- e(E,_); c0; {CL}.", "h2(E) :- g(E,_); c0; {CL}."],
}


def _family_c(out):
    for (iname, inner), (bname, rules) in itertools.product(C_INNER, C_BIND.items()):
        if iname == "cond-head" and bname in ("local-vs-global", "both-local"):
            continue  # E in the head of the conditional literal must be global: unsafe
        lines = ["{ b(N) } :- db(N)." if iname != "cond-head" else "{ b(N,E) } :- db(N,E)."]
        lines += [r.replace("{CL}", inner) for r in rules]
        out.append({"program": "\n".join(lines) + "\n", "tag": f"scope-{iname}-{bname}"})


# ---------------------------------------------------------------------------------------------------------------
# family D: overlapping candidate sets of sizes 2..4 in three rules
# ---------------------------------------------------------------------------------------------------------------
def _family_d(out):
    pool = ["a(X)", "b(X,Y)", "c(Y)", "d(X)"]
    bodies = [list(c) for n in (3, 4) for c in itertools.combinations(pool, n)]
    for triple, rev in itertools.product(itertools.combinations(bodies, 3), (False, True)):
        triple = list(reversed(triple)) if rev else list(triple)
        lines = [f"h{i}(X) :- {_join(b)}, e{i}." for i, b in enumerate(triple, 1)]
        out.append({"program": "\n".join(lines) + "\n", "tag": "overlap-vars" + ("-rev" if rev else "")})
    pool0 = ["a", "b", "c", "d"]
    bodies0 = [list(c) for n in (2, 3, 4) for c in itertools.combinations(pool0, n)]
    picked = [t for k, t in enumerate(itertools.combinations(bodies0, 3)) if k % 16 == 0]
    for triple in picked:
        lines = ["{ a; b; c; d }."] + [f"h{i} :- {_join(b)}, not e{i}." for i, b in enumerate(triple, 1)]
        out.append({"program": "\n".join(lines) + "\n", "tag": "overlap-zero"})


# ---------------------------------------------------------------------------------------------------------------
# family E: recursion
# ---------------------------------------------------------------------------------------------------------------
def _family_e(out):
    for ex1, ex2 in itertools.product(("", ", ok(Z)"), ("not blk(Z)", "blk(Z)", "X != Z")):
        lines = [
            "t(X,Y) :- e(X,Y).",
            f"t(X,Z) :- t(X,Y), e(Y,Z){ex1}.",
            f"u(X,Z) :- t(X,Y), e(Y,Z), {ex2}.",
        ]
        out.append({"program": "\n".join(lines) + "\n", "tag": "rec-positive"})
    for third, given in itertools.product(
        ("", "w(X) :- d(X), not a(X), e1.", "w(X) :- d(X), g(X), e1.", ":- d(X), g(X), not a(X), not b(X)."), (False, True)
    ):
        lines = ["a(X) :- d(X), g(X), not b(X).", "b(X) :- d(X), g(X), not a(X)."]
        if third:
            lines.append(third)
        rec = {"program": "\n".join(lines) + "\n", "tag": "rec-negative"}
        if given:
            rec["in"] = [["a", 1]]
        out.append(rec)
    for agg, third in itertools.product(
        (
            "1 <= #count{ Y : e(X,Y), r(Y) }",
            "2 <= #sum{ Y : e(X,Y), r(Y) }",
            "#count{ Y : e(X,Y), r(Y) } != 1",
            "#sum{ Y : e(X,Y), r(Y) } <= 1",
            "r(Y) : e(X,Y), r(Y)",
            "t(Y) : e(X,Y), r(Y)",
        ),
        ("v(X,Y) :- e(X,Y), r(Y), m(X).", ":- e(X,Y), r(Y), bad(X).", "{ v(X) } :- m(X), 1 <= #count{ Y : e(X,Y), r(Y), m(Y) }."),
    ):
        lines = ["r(X) :- s(X).", f"r(X) :- d(X); {agg}.", third]
        if agg.startswith("t("):
            lines.insert(1, "t(Y) :- r(Y).")
        kind = "cond" if " : e" in agg and "#" not in agg else "agg"
        out.append({"program": "\n".join(lines) + "\n", "tag": f"rec-through-{kind}"})


# ---------------------------------------------------------------------------------------------------------------
# family F: assignments are substituted before matching; untouched statements are restored
# ---------------------------------------------------------------------------------------------------------------
F_FIRST = {
    "eqvars": "foo(X) :- a(X,X), b(X,X+1), c.",
    "diffvars": "foo(X) :- a(X,Y), b(X,X+1), c.",
}
F_SECOND = {
    "eq": "bar(U) :- a(U,V), b(U,V+1), d, V = U.",
    "notneq": "bar(U) :- a(U,V), b(U,V+1), d, not V != U.",
    "eq-first": "bar(U) :- V = U, a(U,V), b(U,V+1), d.",
    "chain": "bar(U) :- a(U,V), b(U,W), d, V = U, W = V+1.",
    "term": "bar(U) :- a(U,U), b(U,W), d, W = U+1.",
    "eq-rev": "bar(U) :- a(U,V), b(U,V+1), d, U = V.",
    "weak": ":~ a(U,V), b(U,V+1), d, V = U. [1@V,U]",
    "neq": "bar(U) :- a(U,V), b(U,V+1), d, V != U.",
}
F_THIRD = {
    "none": None,
    "var": "k(X) :- r(X,Y), X = Y.",
    "sum": "k(Z) :- r(X,Y), Z = X+Y.",
    "weak": ":~ r(X,Y), Z = X+Y. [Z@1,X]",
    "interval": "k(X) :- r(X,_), X = 1..3.",
}


def _family_f(out):
    for (fn, first), (sn, second), (tn, third) in itertools.product(F_FIRST.items(), F_SECOND.items(), F_THIRD.items()):
        if fn == "diffvars" and tn != "none":
            continue
        lines = [first, second] + ([third] if third else [])
        out.append({"program": "\n".join(lines) + "\n", "tag": f"assign-{fn}-{sn}-{tn}"})


# ---------------------------------------------------------------------------------------------------------------
# family G: does the set bind its variable?  operator terms
# ---------------------------------------------------------------------------------------------------------------
G_TERMS = ["X+1", "X-1", "1-X", "-X", "X*2", "X/2", "X\\2", "X**2", "X&1", "X?1", "X^1", "|X|", "~X", "X+X"]


def _family_g(out):
    for term, form in itertools.product(G_TERMS, ("set-binds", "op-only")):
        if form == "set-binds":
            lines = [f"h1(X) :- m(X), p({term}), e1.", f"h2(X) :- m(X), p({term}), e2."]
        else:
            lines = [f"h1(X) :- s1(X), p({term}), c.", f"h2(X) :- s2(X), p({term}), c."]
        out.append({"program": "\n".join(lines) + "\n", "tag": f"bind-{form}"})


# ---------------------------------------------------------------------------------------------------------------
# family H: objectives
# ---------------------------------------------------------------------------------------------------------------
H_SHAPES = [
    ("conn2", ["p(X,Y)", "q(Y)"], "{ q(A) } :- dq(A)."),
    ("cmp", ["q(X)", "r(Y)", "X < Y"], "{ r(A) } :- dr(A)."),
    ("zero-mix", ["p(X,Y)", "c"], "{ c }."),
]
H_FORMS = {
    "weak+weak": [":~ {S}, e1. [1@1,X]", ":~ {T}, e2. [V@2,U]"],
    "rule+prio": ["h(X) :- {S}, e1.", "#minimize{ 1@V,U : {T}, e2 }."],
    "rule+maximize": ["h(X,Y) :- {S}.", "#maximize{ V@1,U : {T} }."],
    "rule+weight-arith": ["h(X) :- {S}, e1.", ":~ {T}, e2. [U+V@1]"],
    "two-elements": ["#minimize{ 1,X : {S}, e1; 2,V : {T}, e2 }."],
    "weak+cond": [":~ e1, t(X) : {S}. [1@1]", ":~ {T}. [1@1,U]"],
}


def _family_h(out):
    for (name, lits, choice), (fname, stms) in itertools.product(H_SHAPES, H_FORMS.items()):
        s = _join(lits)
        t = _join(_ren(l, {"X": "U", "Y": "V"}) for l in lits)
        lines = [choice] + [x.replace("{S}", s).replace("{T}", t) for x in stms]
        out.append({"program": "\n".join(lines) + "\n", "tag": f"objective-{fname}-{name}"})


# ---------------------------------------------------------------------------------------------------------------
# family I: the auxiliary name is already taken
# ---------------------------------------------------------------------------------------------------------------
def _family_i(out):
    for user in ("__aux_1(X) :- z(X).", "__aux_1(X,Y) :- z(X), z(Y).", "w(X) :- z(X), __aux_1(X).", "__aux_2(X) :- z(X)."):
        lines = [user, "h1(X) :- p(X,Y), q(Y), e1.", "h2(X) :- p(X,Y), q(Y), e2.", "h3(X) :- r(X), s(X), e1.", "h4(X) :- r(X), s(X), e2."]
        out.append({"program": "\n".join(lines) + "\n", "tag": "aux-name-taken"})


def programs():
    out = []
    for fam in (_family_a, _family_b, _family_c, _family_d, _family_e, _family_f, _family_g, _family_h, _family_i):
        fam(out)
    seen = set()
    uniq = []
    for rec in out:
        if rec["program"] in seen:
            continue
        seen.add(rec["program"])
        uniq.append(rec)
    return uniq
