"""Optimisation statements (#minimize / #maximize / weak constraints) under ngo's rewrites (property C02).

Four families, every one with choice rules so that several answer sets with different costs exist and with
input predicates carrying a weight column.  `out` always holds the choice predicate(s) only; helper
predicates that merely carry an aggregate value stay internal so that unused / inline may touch them.

* ``mm``   weight = result of a #min/#max rule or of a #min/#max directly in the objective body
           (minmax_chains: _replace_results_in_minimize / _create_replacement).  Side conditions spanned:
           weight is `X` / `-X` (fires) vs `2*X` / `X+1` ("not simple enough"); all variables of the result
           literal in the tuple (fires) vs group variable missing / anonymous (issue #8 check); another
           objective whose (weight,priority,terms) tuple potentially unifies (blocks) vs distinct priority /
           distinct constant / distinct length (fires); helper predicate vs aggregate directly in the body;
           remaining body literals (rest_cond) that mention the result variable: a trivially true domain
           guard, an independent guard `lvl(X)`, a comparison, a guard joined with the aggregate; no guard
           at all (clingo then reports "tuple ignored: #inf@1", so only exceptions/safety are probed);
           result summed up by a #sum rule that feeds the objective.
* ``sum``  weight = result of #sum/#sum+/#count, through a helper rule or directly in the objective body
           (inline: inline_in_rulebody + inline_minimize, math+inline).  Weight is exactly the result variable
           (fires) vs `-X`, `2*X`, `X+1`; grouped with / without the group in the tuple (coinciding sums of
           different groups); anonymous group argument (has_anonymous_vars); two aggregate objectives with
           the same / non-unifying tuples / distinct priorities; an ordinary objective whose tuples coincide
           with the inlined ones; two-element #sum; extra body literal.
* ``amo``  weight = value argument of an at-most-one predicate (sum_chains: _get_var / _replace_optimize /
           _get_trigger / _calc_at_most).  Upper bound 1 / exactly 1 (fires) vs bound 2, no bound, a second
           deriving rule, predicate also input (near misses); weight `V`/`-V` vs arithmetic; weight variable
           also in the tuple or in a comparison (count != 1); group in the tuple / missing / anonymous;
           conditional literal after / before the trigger; a second objective that unifies / cannot unify /
           has another priority; multi-element #minimize.
* ``plain`` objectives whose weight comes straight from an input column, through arithmetic or equalities in
           the body (normalize.exline_minimize_terms / inline_rule, math), through an otherwise unused helper
           predicate or a chain of copies (unused: analyze_usage / remove_single_copies), with anonymous
           arguments, a variable or arithmetic priority, and multi-element #minimize over two derived
           predicates whose tuples unify / cannot unify / partially unify.
"""
import itertools

# (statement kind, weight as a function of the weight variable, label)
COMBOS = [
    ("weak", "{v}", "w"),
    ("weak", "-{v}", "negw"),
    ("weak", "2*{v}", "2w"),
    ("weak", "{v}+1", "w+1"),
    ("min", "{v}", "min"),
    ("max", "{v}", "max"),
]
SHORT = [COMBOS[0], COMBOS[2], COMBOS[5]]
SIGNED = [COMBOS[0], COMBOS[1], COMBOS[5]]
TWO = [COMBOS[0], COMBOS[5]]


def stmt(kind, weight, prio, terms, body):
    """one optimisation statement as text"""
    tup = "".join("," + t for t in terms)
    cond = ("; " if any(" : " in b for b in body) else ", ").join(body)
    if kind == "weak":
        return f":~ {cond}. [{weight}@{prio}{tup}]"
    word = "#minimize" if kind == "min" else "#maximize"
    return f"{word} {{ {weight}@{prio}{tup} : {cond} }}."


def rec(lines, tag, inn, out):
    return {"program": "\n".join(lines) + "\n", "tag": tag, "in": inn, "out": out}


# ----------------------------------------------------------------------------------------------
# family mm: result of #min/#max as weight
# ----------------------------------------------------------------------------------------------


def _mm_variant(name, fun):
    """(rules, result literals of the objective body, guard, tuple terms, in, out)"""
    if name == "flat":
        return (["{ sel(V) } :- val(V).", f"best(X) :- X = #{fun} {{ V : sel(V) }}."], ["best(X)"], "val(X)", [], [["val", 1]], [["sel", 1]])
    if name == "direct":
        return (["{ sel(V) } :- val(V)."], [f"X = #{fun} {{ V : sel(V) }}"], "val(X)", [], [["val", 1]], [["sel", 1]])
    grp_rule = f"best(P,X) :- grp(P), X = #{fun} {{ V : sel(P,V) }}."
    choice = "{ sel(P,V) } :- skill(P,V)."
    inn, out = [["skill", 2], ["grp", 1]], [["sel", 2]]
    if name == "grp":
        return ([choice, grp_rule], ["best(P,X)"], "skill(P,X)", ["P"], inn, out)
    if name == "grp-notuple":
        return ([choice, grp_rule], ["best(P,X)"], "skill(P,X)", [], inn, out)
    if name == "grp-anon":
        return ([choice, grp_rule], ["best(_,X)"], "skill(_,X)", [], inn, out)
    if name == "direct-grp":
        return ([choice], ["grp(P)", f"X = #{fun} {{ V : sel(P,V) }}"], "lvl(X)", ["P"], inn + [["lvl", 1]], out)
    if name == "direct-grp-joinguard":  # the guard shares P with the aggregate and mentions the result
        return ([choice], ["grp(P)", f"X = #{fun} {{ V : sel(P,V) }}"], "skill(P,X)", ["P"], inn, out)
    raise ValueError(name)


def _mm():
    out = []
    names = ["flat", "direct", "grp", "grp-notuple", "grp-anon", "direct-grp", "direct-grp-joinguard"]
    for name, fun, (kind, wf, wl) in itertools.product(names, ["max", "min"], COMBOS):
        if name.startswith("direct") and kind != "weak":
            continue  # clingo has no aggregates inside #minimize elements
        if name == "grp-anon" and wl in ("w+1", "min", "negw"):
            continue
        if name == "direct-grp-joinguard" and wl in ("w+1", "2w"):
            continue
        rules, lits, guard, terms, inn, outp = _mm_variant(name, fun)
        out.append(rec(rules + [stmt(kind, wf.format(v="X"), 1, terms, lits + [guard])], f"mm:{name}:{wl}", inn, outp))
    # without the domain guard clingo reports "tuple ignored: #inf@1" on every instance
    for name in ("flat", "grp", "direct"):
        rules, lits, guard, terms, inn, outp = _mm_variant(name, "max")
        out.append(rec(rules + [stmt("weak", "X", 1, terms, lits)], f"mm:{name}:noguard", inn, outp))
    # guards that are not implied by the result: independent predicate, comparison
    for name, fun, guard, (kind, wf, wl) in itertools.product(["flat", "grp"], ["max", "min"], ["lvl", "cmp"], SIGNED):
        rules, lits, _, terms, inn, outp = _mm_variant(name, fun)
        if guard == "lvl":
            glit, inn = "lvl(X)", inn + [["lvl", 1]]
        else:
            glit = "X > 1" if fun == "max" else "X < 7"
        out.append(rec(rules + [stmt(kind, wf.format(v="X"), 1, terms, lits + [glit])], f"mm:{name}:guard-{guard}:{wl}", inn, outp))
    for fun in ("max", "min"):  # the result is also part of the tuple
        rules, lits, guard, terms, inn, outp = _mm_variant("grp", fun)
        out.append(rec(rules + [stmt("weak", "X", 1, terms + ["X"], lits + [guard])], "mm:grp:result-in-tuple", inn, outp))
    # a second / third objective: does its tuple unify with the one that is to be replaced
    seconds = [
        ("unify-shared-prio", ["P"], [stmt("weak", "V", 1, ["P"], ["sel(P,V)"])]),
        ("distinct-prio", ["P"], [stmt("weak", "V", 2, ["P"], ["sel(P,V)"])]),
        ("nonunify-const", ["P", "a"], [stmt("weak", "V", 1, ["P", "b"], ["sel(P,V)"])]),
        ("unify-renamed", ["P", "a"], [stmt("weak", "V", 1, ["Q", "a"], ["sel(Q,V)"])]),
        ("unify-crossed", ["P", "a"], [stmt("weak", "V", 1, ["a", "P"], ["sel(P,V)"])]),
        ("nonunify-length", ["P"], [stmt("weak", "V", 1, [], ["sel(P,V)"])]),
        ("unify-constweight", ["P"], [stmt("weak", "1", 1, ["P"], ["sel(P,V)"])]),
        ("three-prios", ["P"], [stmt("weak", "V", 2, ["P"], ["sel(P,V)"]), stmt("max", "V", 3, [], ["sel(P,V)"])]),
    ]
    for (tag, terms, extra), (fun, wf) in itertools.product(seconds, [("max", "X"), ("min", "X"), ("max", "-X")]):
        rules, lits, guard, _, inn, outp = _mm_variant("grp", fun)
        out.append(rec(rules + [stmt("weak", wf, 1, terms, lits + [guard])] + extra, f"mm:second:{tag}", inn, outp))
    # the results are summed up by a rule (minmax: _replace_results_in_sum) and the sum is the weight
    for fun, (tag, elem) in itertools.product(
        ["max", "min"],
        [
            ("group-in-tuple", "X,P : best(P,X), skill(P,X)"),
            ("group-missing", "X : best(P,X), skill(P,X)"),
            ("negated", "-X,P : best(P,X), skill(P,X)"),
        ],
    ):
        rules, _, _, _, inn, outp = _mm_variant("grp", fun)
        out.append(rec(rules + [f"tot(S) :- S = #sum {{ {elem} }}.", stmt("weak", "S", 1, [], ["tot(S)"])], f"mm:sum-of-result:{tag}", inn, outp))
    return out


# ----------------------------------------------------------------------------------------------
# family sum: result of #sum / #count as weight (inline into the objective)
# ----------------------------------------------------------------------------------------------


def _agg(fun, grouped, neg=False):
    atom = "sel(G,I,V)" if grouped else "sel(I,V)"
    if neg:
        atom = ("item(G,I,V), not " if grouped else "item(I,V), not ") + atom
    if fun == "count":
        return f"#count {{ I,V : {atom} }}"
    if fun == "sum+":  # element weights below zero whatever the instance offers: #sum+ must ignore them
        return f"#sum+ {{ V-2,I : {atom} }}"
    return f"#{fun} {{ V,I : {atom} }}"


def _sum_variant(name, fun):
    flat_choice, grp_choice = "{ sel(I,V) } :- item(I,V).", "{ sel(G,I,V) } :- item(G,I,V)."
    fin, fout = [["item", 2]], [["sel", 2]]
    gin, gout = [["item", 3], ["grp", 1]], [["sel", 3]]
    helper = f"tot(G,X) :- grp(G), X = {_agg(fun, True)}."
    if name == "flat-helper":
        return ([flat_choice, f"tot(X) :- X = {_agg(fun, False)}."], ["tot(X)"], [], fin, fout)
    if name == "flat-direct":
        return ([flat_choice], [f"X = {_agg(fun, False)}"], [], fin, fout)
    if name == "grp-helper":
        return ([grp_choice, helper], ["tot(G,X)"], ["G"], gin, gout)
    if name == "grp-helper-notuple":
        return ([grp_choice, helper], ["tot(G,X)"], [], gin, gout)
    if name == "grp-helper-anon":
        return ([grp_choice, helper], ["tot(_,X)"], [], gin, gout)
    if name == "grp-direct":
        return ([grp_choice], ["grp(G)", f"X = {_agg(fun, True)}"], ["G"], gin, gout)
    if name == "grp-direct-notuple":
        return ([grp_choice], ["grp(G)", f"X = {_agg(fun, True)}"], [], gin, gout)
    raise ValueError(name)


def _sum():
    out = []
    names = ["flat-helper", "flat-direct", "grp-helper", "grp-helper-notuple", "grp-helper-anon", "grp-direct", "grp-direct-notuple"]
    for fun, combos in (("sum", COMBOS), ("count", SHORT + [COMBOS[1]]), ("sum+", SIGNED)):
        for name, (kind, wf, wl) in itertools.product(names, combos):
            if name.endswith(("direct", "direct-notuple")) and kind != "weak":
                continue  # clingo has no aggregates inside #minimize elements
            rules, lits, terms, inn, outp = _sum_variant(name, fun)
            out.append(rec(rules + [stmt(kind, wf.format(v="X"), 1, terms, lits)], f"sum:{fun}:{name}:{wl}", inn, outp))
    for name in ("flat-helper", "flat-direct"):  # #sum+ plus a constant (math: new_sum)
        rules, lits, terms, inn, outp = _sum_variant(name, "sum+")
        out.append(rec(rules + [stmt("weak", "X+1", 1, terms, lits)], f"sum:sum+:{name}:w+1", inn, outp))
    # two aggregate objectives: same tuple / distinct priority / non-unifying constant / different length
    pairs = [
        ("same-tuple", 1, [], 1, []),
        ("distinct-prio", 1, [], 2, []),
        ("nonunify-const", 1, ["a"], 1, ["b"]),
        ("same-const", 1, ["a"], 1, ["a"]),
        ("nonunify-length", 1, [], 1, ["a"]),
    ]
    for (tag, p1, t1, p2, t2), (helper, fun) in itertools.product(pairs, [(False, "sum"), (True, "sum"), (False, "count")]):
        rules = ["{ sel(I,V) } :- item(I,V)."]
        if helper:
            rules += [f"tot(X) :- X = {_agg(fun, False)}.", f"rest(X) :- X = {_agg(fun, False, True)}."]
            l1, l2 = ["tot(X)"], ["rest(X)"]
        else:
            l1, l2 = [f"X = {_agg(fun, False)}"], [f"X = {_agg(fun, False, True)}"]
        rules += [stmt("weak", "X", p1, t1, l1), stmt("weak", "X", p2, t2, l2)]
        out.append(rec(rules, f"sum:pair:{tag}", [["item", 2]], [["sel", 2]]))
    # an ordinary objective whose tuples coincide with what inlining produces
    for (helper, fun), (tag, second) in itertools.product(
        [(False, "sum"), (True, "sum"), (False, "count")],
        [
            ("plain-collides", stmt("weak", "V", 1, ["I"], ["sel(I,V)"])),
            ("plain-collides-padded", stmt("weak", "V", 1, ["I", "unique"], ["sel(I,V)"])),
            ("plain-other-prio", stmt("weak", "V", 2, ["I"], ["sel(I,V)"])),
        ],
    ):
        rules = ["{ sel(I,V) } :- item(I,V)."]
        if helper:
            rules += [f"tot(X) :- X = {_agg(fun, False)}."]
            l1 = ["tot(X)"]
        else:
            l1 = [f"X = {_agg(fun, False)}"]
        out.append(rec(rules + [stmt("weak", "X", 1, [], l1), second], f"sum:{tag}", [["item", 2]], [["sel", 2]]))
    # the result variable occurs a third time (tuple / priority): inline_minimize must not fire
    for name, (tag, prio, terms) in itertools.product(["flat-helper", "flat-direct"], [("result-in-tuple", 1, ["X"]), ("result-as-priority", "X", [])]):
        rules, lits, _, inn, outp = _sum_variant(name, "sum")
        out.append(rec(rules + [stmt("weak", "X", prio, terms, lits)], f"sum:{name}:{tag}", inn, outp))
    # two elements inside the aggregate, extra body literal
    for tag, elems in (
        ("two-elems-unify", "V,I : sel(I,V); W,J : bonus(J,W)"),
        ("two-elems-distinct", "V,I,a : sel(I,V); W,J,b : bonus(J,W)"),
    ):
        rules = ["{ sel(I,V) } :- item(I,V).", stmt("weak", "X", 1, [], [f"X = #sum {{ {elems} }}"])]
        out.append(rec(rules, f"sum:{tag}", [["item", 2], ["bonus", 2]], [["sel", 2]]))
    for fun in ("sum", "count"):
        rules = ["{ sel(I,V) } :- item(I,V).", "{ on }.", stmt("weak", "X", 1, [], ["on", f"X = {_agg(fun, False)}"])]
        out.append(rec(rules, "sum:extra-body-literal", [["item", 2]], [["sel", 2], ["on", 0]]))
    return out


# ----------------------------------------------------------------------------------------------
# family amo: value argument of an at-most-one predicate as weight
# ----------------------------------------------------------------------------------------------

AMO_HEADS = {
    "ub1": (["{ assign(T,V) : val(V) } 1 :- task(T)."], [["task", 1], ["val", 1]]),
    "eq1": (["1 { assign(T,V) : val(V) } 1 :- task(T)."], [["task", 1], ["val", 1]]),
    "dom2": (["{ assign(T,V) : cand(T,V) } 1 :- task(T)."], [["task", 1], ["cand", 2]]),
    "ub2": (["{ assign(T,V) : val(V) } 2 :- task(T)."], [["task", 1], ["val", 1]]),
    "nobound": (["{ assign(T,V) : val(V) } :- task(T)."], [["task", 1], ["val", 1]]),
    "tworules": (["{ assign(T,V) : val(V) } 1 :- task(T).", "assign(T,V) :- force(T,V)."], [["task", 1], ["val", 1], ["force", 2]]),
    "alsoinput": (["{ assign(T,V) : val(V) } 1 :- task(T)."], [["task", 1], ["val", 1], ["assign", 2]]),
    "sumhead": (["#sum { 1,V : assign(T,V) : val(V) } 1 :- task(T)."], [["task", 1], ["val", 1]]),
}
AMO_OUT = [["assign", 2]]

# label -> (body literals, tuple terms)
AMO_STMTS = [
    ("group-in-tuple", ["assign(T,V)"], ["T"]),
    ("group-missing", ["assign(T,V)"], []),
    ("group-anon", ["assign(_,V)"], []),
    ("extra-literal", ["assign(T,V)", "hard(T)"], ["T"]),
    ("weight-in-tuple", ["assign(T,V)"], ["T", "V"]),
    ("weight-compared", ["assign(T,V)", "V > 1"], ["T"]),
    ("conditional", ["assign(T,V)", "hard(T) : task(T)"], ["T"]),
    ("conditional-first", ["hard(T) : task(T)", "assign(T,V)"], ["T"]),
]


def _amo():
    out = []
    for (sl, body, terms), (kind, wf, wl) in itertools.product(AMO_STMTS, COMBOS):
        if sl in ("weight-in-tuple", "weight-compared", "conditional", "conditional-first") and wl in ("w+1", "min", "negw"):
            continue
        if sl.startswith("conditional") and kind != "weak":
            continue  # no conditional literals inside #minimize elements
        rules, inn = AMO_HEADS["ub1"]
        out.append(rec(rules + [stmt(kind, wf.format(v="V"), 1, terms, body)], f"amo:ub1:{sl}:{wl}", inn, AMO_OUT))
    for (head, combos), (sl, body, terms) in itertools.product([("eq1", SHORT), ("dom2", TWO)], AMO_STMTS[:3]):
        for kind, wf, wl in combos:
            rules, inn = AMO_HEADS[head]
            out.append(rec(rules + [stmt(kind, wf.format(v="V"), 1, terms, body)], f"amo:{head}:{sl}:{wl}", inn, AMO_OUT))
    for head, (kind, wf, wl) in itertools.product(["ub2", "nobound", "tworules", "alsoinput", "sumhead"], TWO):
        rules, inn = AMO_HEADS[head]
        body = ["assign(T,V)", "task(T)"] if head == "alsoinput" else ["assign(T,V)"]
        out.append(rec(rules + [stmt(kind, wf.format(v="V"), 1, ["T"], body)], f"amo:{head}:near-miss:{wl}", inn, AMO_OUT))
    for bound, combos in (("1", COMBOS), ("2", SHORT)):
        for kind, wf, wl in combos:
            rules = [f"{{ pick(V) : val(V) }} {bound}."]
            out.append(rec(rules + [stmt(kind, wf.format(v="V"), 1, [], ["pick(V)"])], f"amo:flat-ub{bound}:{wl}", [["val", 1]], [["pick", 1]]))
    # second objective over another weight column
    seconds = [
        ("unify-shared-prio", ["T"], [stmt("weak", "W", 1, ["T"], ["assign(T,V)", "pen(T,W)"])]),
        ("distinct-prio", ["T"], [stmt("weak", "W", 2, ["T"], ["assign(T,V)", "pen(T,W)"])]),
        ("nonunify-const", ["T", "a"], [stmt("weak", "W", 1, ["T", "b"], ["assign(T,V)", "pen(T,W)"])]),
        ("unify-renamed", ["T", "a"], [stmt("weak", "W", 1, ["S", "a"], ["assign(S,V)", "pen(S,W)"])]),
        ("both-replaceable", ["T"], [stmt("max", "V", 2, ["T"], ["assign(T,V)"])]),
        ("unify-crossed", ["T", "a"], [stmt("weak", "W", 1, ["a", "T"], ["assign(T,V)", "pen(T,W)"])]),
        ("nonunify-length", ["T"], [stmt("weak", "W", 1, [], ["assign(T,V)", "pen(T,W)"])]),
        ("unify-constweight", ["T"], [stmt("weak", "1", 1, ["T"], ["assign(T,V)"])]),
        ("three-prios", ["T"], [stmt("weak", "W", 2, ["T"], ["assign(T,V)", "pen(T,W)"]), stmt("max", "1", 3, ["T"], ["assign(T,V)"])]),
    ]
    rules, inn = AMO_HEADS["ub1"]
    for idx, (tag, terms, extra) in enumerate(seconds):
        for wf in ["V", "-V"] if idx < 5 else ["V"]:
            out.append(rec(rules + [stmt("weak", wf, 1, terms, ["assign(T,V)"])] + extra, f"amo:second:{tag}", inn + [["pen", 2]], AMO_OUT))
    for tag, elems in (
        ("elems-unify", "V@1,T : assign(T,V); W@1,T : used(T), pen(T,W)"),
        ("elems-distinct-const", "V@1,T,a : assign(T,V); W@1,T,b : used(T), pen(T,W)"),
        ("elems-distinct-prio", "V@1,T : assign(T,V); W@2,T : used(T), pen(T,W)"),
    ):
        for word in ("#minimize", "#maximize"):
            prg = rules + ["used(T) :- assign(T,V).", f"{word} {{ {elems} }}."]
            out.append(rec(prg, f"amo:{tag}", inn + [["pen", 2]], AMO_OUT))
    return out


# ----------------------------------------------------------------------------------------------
# family plain: weights from input columns, arithmetic, equalities, unused helper predicates
# ----------------------------------------------------------------------------------------------


def _plain():
    out = []
    choice = "{ sel(X) } :- dom(X)."
    inn, outp = [["dom", 1], ["w", 2]], [["sel", 1]]
    # (label, extra rules, body, weight variable, terms, weight forms)
    bodies = [
        ("input-column", [], ["sel(X)", "w(X,W)"], "W", ["X"], COMBOS),
        ("input-column-coincide", [], ["sel(X)", "w(X,W)"], "W", [], SHORT),
        ("helper-unused", ["cost(X,W) :- sel(X), w(X,W)."], ["cost(X,W)"], "W", ["X"], COMBOS),
        ("helper-unused-coincide", ["cost(X,W) :- sel(X), w(X,W)."], ["cost(X,W)"], "W", [], SHORT),
        ("helper-copy", ["chosen(X) :- sel(X)."], ["chosen(X)", "w(X,W)"], "W", ["X"], SHORT),
        ("helper-copy-chain", ["picked(X) :- sel(X).", "chosen(X) :- picked(X)."], ["chosen(X)", "w(X,W)"], "W", ["X"], SHORT),
        ("helper-arith-head", ["cost(X,2*W) :- sel(X), w(X,W)."], ["cost(X,Y)"], "Y", ["X"], COMBOS),
        ("equality", [], ["sel(X)", "w(X,W)", "Y = W*2"], "Y", ["X"], COMBOS),
        ("equality-chain", [], ["sel(X)", "w(X,W)", "Y = W+1", "Z = Y-1"], "Z", ["X"], COMBOS),
        ("equality-neg", [], ["sel(X)", "w(X,W)", "Y = -W"], "Y", ["X"], SHORT),
        ("equality-two-columns", [], ["sel(X)", "w(X,W)", "w(X,U)", "Y = W+U", "W < U"], "Y", ["X"], COMBOS),
    ]
    for bl, extra, body, var, terms, combos in bodies:
        for kind, wf, wl in combos:
            out.append(rec([choice] + extra + [stmt(kind, wf.format(v=var), 1, terms, body)], f"plain:{bl}:{wl}", inn, outp))
    # arity-3 weight table with an anonymous argument, priority taken from a column, function term in tuple
    in3 = [["dom", 1], ["w", 3]]
    for kind, wf, wl in SHORT:
        out.append(rec([choice, stmt(kind, wf.format(v="W"), 1, ["X"], ["sel(X)", "w(X,_,W)"])], f"plain:anon-arg:{wl}", in3, outp))
        out.append(rec([choice, stmt(kind, wf.format(v="W"), "P", ["X"], ["sel(X)", "w(X,P,W)"])], f"plain:var-priority:{wl}", in3, outp))
        out.append(rec([choice, stmt(kind, wf.format(v="W"), 1, ["f(X)"], ["sel(X)", "w(X,W)"])], f"plain:function-term:{wl}", inn, outp))
        out.append(rec([choice, stmt(kind, wf.format(v="W"), "P+1", ["X"], ["sel(X)", "w(X,P,W)"])], f"plain:arith-priority:{wl}", in3, outp))
    # multi-element #minimize over two derived predicates
    rules = [choice, "p(X,W) :- sel(X), a(X,W).", "q(X,W) :- not sel(X), b(X,W)."]
    inn2 = [["dom", 1], ["a", 2], ["b", 2]]
    elems = [
        ("unify", "W,X : p(X,W); W,X : q(X,W)"),
        ("nonunify-const", "W,X,a : p(X,W); W,X,b : q(X,W)"),
        ("partial-unify", "W,X,a : p(X,W); W,a,X : q(X,W)"),
        ("neg-second", "W,X : p(X,W); -W,X : q(X,W)"),
        ("unify-renamed", "W,X : p(X,W); U,Y : q(Y,U)"),
        ("nonunify-length", "W,X : p(X,W); W : q(X,W)"),
        ("distinct-prio", "W@1,X : p(X,W); W@2,X : q(X,W)"),
        ("anon-second", "W,X : p(X,W); W : q(_,W)"),
    ]
    for idx, (tag, el) in enumerate(elems):
        for word in ["#minimize", "#maximize"] if idx < 4 else ["#minimize"]:
            out.append(rec(rules + [f"{word} {{ {el} }}."], f"plain:elems:{tag}", inn2, outp))
    # three statements, shared / distinct priorities, weights from different columns that coincide
    for p1, p2, p3 in ((1, 1, 1), (1, 2, 3), (2, 1, 2)):
        prg = rules + [
            stmt("weak", "W", p1, ["X"], ["p(X,W)"]),
            stmt("weak", "W", p2, ["X"], ["q(X,W)"]),
            stmt("max", "1", p3, ["X"], ["sel(X)"]),
        ]
        out.append(rec(prg, f"plain:three:{p1}{p2}{p3}", inn2, outp))
    return out


def programs():
    return _mm() + _sum() + _amo() + _plain()
