"""Grid for the `inline` pass (ngo/inline.py), property C15.

A helper rule `h(V..,S) :- body, S = #agg{..}` is unfolded into the single statement that uses it.  Spanned side
conditions: inner function x outer function (the `good` table: min in min, max in max, count/sum/sum+ in sum/sum+,
everything else a near miss; sign-sensitive pairs with weights Y-2); S is exactly the weight of the using element / not
the weight / an expression / repeated in the tuple; the group variable is in the using tuple or dropped from it; sibling
elements and other objectives whose tuples unify / cannot unify / collide only after unfolding (other length, `unique`
padding, identical text); using condition with extra literals, under `not`, anonymous, constant or repeated arguments,
global arguments; two uses in one statement / in two statements; helper with extra body literals, aggregate over a
variable that is not in the head, repeated or constant head arguments, S used elsewhere, extra bound on the aggregate,
two elements, two definitions, conditional literal, helper given as input; helper static (never unfolded) vs. depending
on a choice in its body or in its aggregate condition.  Plain body use: arithmetic / comparison link to another
aggregate, direct guard, no link, no aggregate, link through a third variable, global of an aggregate, `not` (arity 1
only), `not not`, variable-name clashes.  Objectives: `:~`, `#minimize`, `#maximize`, aggregate written directly in the
weak constraint, S as weight / priority / tuple term, and the math+inline interaction on sums of aggregates in a weight.
"""
import itertools

AGGS = ["#sum", "#sum+", "#count", "#min", "#max"]
SUMLIKE = ["#sum", "#sum+", "#count"]


def _choice(dyn):
    """(choice rule lines, helper body literal, aggregate condition, output predicate of the choice)"""
    if dyn == "cond":
        return ["{ sel(A,Y) } :- p(A,Y)."], "a(A)", "sel(A,Y)", [["sel", 2]]
    if dyn == "body":
        return ["{ on(A) } :- a(A)."], "on(A)", "p(A,Y)", [["on", 1]]
    return [], "a(A)", "p(A,Y)", []


def _helper(agg, dyn, kind="plain"):
    """lines defining h (and the choice below it), the output predicates of the choice"""
    ch, body, cond, out = _choice(dyn)
    if kind == "plain":
        rule = f"h(A,S) :- {body}, S = {agg} {{ Y : {cond} }}."
    elif kind == "ar1":  # no group argument at all
        rule = f"h(S) :- S = {agg} {{ Y,A : {cond} }}."
        if dyn == "body":
            rule = f"h(S) :- S = {agg} {{ Y,A : {cond}, on(A) }}."
    elif kind == "extra":  # extra body literal, projected away by the head
        rule = f"h(A,S) :- {body}, b(A,Z), S = {agg} {{ Y : {cond} }}."
    elif kind == "negbody":
        rule = f"h(A,S) :- {body}, not c(A), S = {agg} {{ Y : {cond} }}."
    elif kind == "globalagg":  # aggregate ranges over a variable that is not in the head
        rule = f"h(A,S) :- b(A,Z), S = {agg} {{ Y : {cond.replace('(A,', '(Z,')} }}."
        if dyn == "body":
            rule = f"h(A,S) :- on(A), b(A,Z), S = {agg} {{ Y : p(Z,Y) }}."
    elif kind == "rep":
        rule = f"h(A,A,S) :- {body}, S = {agg} {{ Y : {cond} }}."
    elif kind == "const":
        rule = f"h(A,1,S) :- {body}, S = {agg} {{ Y : {cond} }}."
    elif kind == "used":  # S also bound by a body literal
        rule = f"h(A,S) :- {body}, c(A,S), S = {agg} {{ Y : {cond} }}."
    elif kind == "bound":  # a second guard on the aggregate
        rule = f"h(A,S) :- {body}, S = {agg} {{ Y : {cond} }} > 1."
    elif kind == "twoel":  # two elements, distinct tuples
        rule = f"h(A,S) :- {body}, S = {agg} {{ Y,l : {cond}; Y,r : q(A,Y) }}."
    elif kind == "twoelsame":  # two elements, coinciding tuples
        rule = f"h(A,S) :- {body}, S = {agg} {{ Y : {cond}; Y : q(A,Y) }}."
    elif kind == "twodefs":
        rule = f"h(A,S) :- {body}, S = {agg} {{ Y : {cond} }}.\nh(A,S) :- c(A,S)."
    elif kind == "condlit":
        rule = f"h(A,S) :- {body}, c(A,Z) : b(Z); S = {agg} {{ Y : {cond} }}."
    elif kind == "rguard":
        rule = f"h(A,S) :- {body}, {agg} {{ Y : {cond} }} = S."
    elif kind == "shift":  # weights Y-2: negative, zero and positive values from the usual pools
        rule = f"h(A,S) :- {body}, S = {agg} {{ Y-2,Y : {cond} }}."
    elif kind == "tuple2":  # inner tuple of length 2, second term from an input predicate
        rule = f"h(A,S) :- {body}, S = {agg} {{ Y,B : {cond}, b(A,B) }}."
    else:
        raise ValueError(kind)
    return ch + rule.split("\n"), out


def _prog(lines, tag, out, inn=None):
    d = {"program": "\n".join(lines) + "\n", "tag": tag, "out": out}
    if inn:
        d["in"] = inn
    return d


# ---------------------------------------------------------------------------------------------------------------------
# use 1: element of another aggregate
# ---------------------------------------------------------------------------------------------------------------------

SS = ("#sum", "#sum")
MM = ("#min", "#min")
XX = ("#max", "#max")
CP = ("#count", "#sum+")
P2 = [SS, MM]
P3 = [SS, XX, CP]
PS = [SS, CP]

# (name, helper kind, tuple, condition, sibling elements, rule head, extra body, extra lines, (inner, outer) pairs)
ELEM_USES = [
    ("nosib", "plain", "S,V", "h(V,S)", [], "foo(X)", "", [], P3),
    ("sib-unifies", "plain", "S,V", "h(V,S)", ["W,U : t(U,W)"], "foo(X)", "", [], P3),
    ("sib-const-distinct", "plain", "S,V,x", "h(V,S)", ["W,U,y : t(U,W)"], "foo(X)", "", [], P3),
    ("sib-const-same", "plain", "S,V,x", "h(V,S)", ["W,U,x : t(U,W)"], "foo(X)", "", [], P2),
    ("sib-func-distinct", "plain", "S,f(V)", "h(V,S)", ["W,g(U) : t(U,W)"], "foo(X)", "", [], P2),
    ("sib-func-same", "plain", "S,f(V)", "h(V,S)", ["W,f(U) : t(U,W)"], "foo(X)", "", [], P2),
    ("sib-collides-after-unfold", "ar1", "S", "h(S)", ["W,U : t(U,W)"], "foo(X)", "", [], P3),
    ("sib-collides-after-unfold-2", "tuple2", "S,V", "h(V,S)", ["W,K,U : t(U,W), b(U,K)"], "foo(X)", "", [], PS),
    ("sib-shares-group", "plain", "S,V", "h(V,S)", ["W,V,x : t(V,W)"], "foo(X)", "", [], P2),
    ("group-var-dropped", "plain", "S", "h(V,S)", [], "foo(X)", "", [], P3),
    ("group-var-dropped-sib", "plain", "S", "h(V,S)", ["W,U : t(U,W)"], "foo(X)", "", [], PS),
    ("weight-expr", "plain", "S+1,V", "h(V,S)", ["W : t(W)"], "foo(X)", "", [], PS),
    ("weight-not-first", "plain", "V,S", "h(V,S)", ["W : t(W)"], "foo(X)", "", [], P2),
    ("weight-twice", "plain", "S,V,S", "h(V,S)", ["W : t(W)"], "foo(X)", "", [], P2),
    ("cond-extra-literal", "plain", "S,V", "h(V,S), c(V)", ["W : t(W)"], "foo(X)", "", [], P3),
    ("cond-extra-negative", "plain", "S,V", "h(V,S), not c(V)", [], "foo(X)", "", [], P2),
    ("cond-negated", "plain", "S,V", "not h(V,S), c(V,S)", ["W : t(W)"], "foo(X)", "", [], P2),
    ("cond-anonymous", "plain", "S", "h(_,S)", ["W,U : t(U,W)"], "foo(X)", "", [], P2),
    ("cond-const-arg", "plain", "S", "h(1,S)", ["W,U : t(U,W)"], "foo(X)", "", [], P2),
    ("cond-repeated-arg", "plain", "S", "h(S,S)", [], "foo(X)", "", [], P2),
    ("global-arg", "plain", "S", "h(G,S)", ["W,x : t(G,W)"], "foo(G,X)", "c(G)", [], P3),
    ("name-clash", "plain", "S,A", "h(A,S)", ["W,Y,x : t(Y,W)"], "foo(Y,X)", "c(Y)", [], P2),
    ("outer-bound", "plain", "S,V", "h(V,S)", ["W : t(W)"], "foo", None, [], P3),
    ("two-uses-one-stmt", "plain", "S,V,x", "h(V,S)", ["S,V,y : h(V,S), c(V)"], "foo(X)", "", [], P2),
    ("two-uses-one-stmt-body", "plain", "S", "h(G,S)", [], "foo(G,X)", "h(G,T), T > 0", [], P2),
    ("two-uses-two-stmts", "plain", "S,V", "h(V,S)", ["W : t(W)"], "foo(X)", "", ["bar(V) :- h(V,S), S > 1."], P2),
    ("helper-extra-literal", "extra", "S,V", "h(V,S)", ["W : t(W)"], "foo(X)", "", [], P3),
    ("helper-negative-literal", "negbody", "S,V", "h(V,S)", ["W : t(W)"], "foo(X)", "", [], P2),
    ("helper-agg-over-nonhead-var", "globalagg", "S,V", "h(V,S)", [], "foo(X)", "", [], P3),
    ("helper-repeated-head", "rep", "S,V", "h(V,V,S)", ["W : t(W)"], "foo(X)", "", [], P2),
    ("helper-const-head", "const", "S,V", "h(V,1,S)", ["W : t(W)"], "foo(X)", "", [], P2),
    ("helper-value-used", "used", "S,V", "h(V,S)", ["W : t(W)"], "foo(X)", "", [], P2),
    ("helper-bound", "bound", "S,V", "h(V,S)", ["W : t(W)"], "foo(X)", "", [], P2),
    ("helper-two-elements", "twoel", "S,V", "h(V,S)", ["W : t(W)"], "foo(X)", "", [], P3),
    ("helper-two-elements-same", "twoelsame", "S,V", "h(V,S)", ["W : t(W)"], "foo(X)", "", [], P3),
    ("helper-two-defs", "twodefs", "S,V", "h(V,S)", ["W : t(W)"], "foo(X)", "", [], P2),
    ("helper-condlit", "condlit", "S,V", "h(V,S)", ["W : t(W)"], "foo(X)", "", [], P2),
    ("helper-right-guard", "rguard", "S,V", "h(V,S)", ["W : t(W)"], "foo(X)", "", [], P2),
    ("helper-arity1", "ar1", "S", "h(S)", ["W,x,y : t(W)"], "foo(X)", "", [], P3),
    ("helper-arity1-sib-unifies", "ar1", "S", "h(S)", ["W : t(W)"], "foo(X)", "", [], P2),
]

GOOD = [("#sum", "#sum"), ("#sum", "#sum+"), ("#sum+", "#sum"), ("#sum+", "#sum+"), ("#count", "#sum"), ("#count", "#sum+"), ("#min", "#min"), ("#max", "#max")]


def _elem_rule(outer, tup, cond, sibs, head, extra_body):
    elems = "; ".join([f"{tup} : {cond}"] + sibs)
    if extra_body is None:  # bound instead of assignment
        return f"{head} :- 2 <= {outer} {{ {elems} }}."
    body = f"X = {outer} {{ {elems} }}"
    if extra_body:
        body = extra_body + ", " + body
    return f"{head} :- {body}."


def _elem_programs():
    out = []
    # full function table on the base shape
    for inner, outer in itertools.product(AGGS, AGGS):
        hl, hout = _helper(inner, "cond")
        rule = _elem_rule(outer, "S,V", "h(V,S)", ["W : t(W)"], "foo(X)", "")
        out.append(_prog(hl + [rule], "elem/function-table", [["foo", 1]] + hout))
    # the pairs that may be unfolded, choice in the helper body
    for inner, outer in GOOD:
        hl, hout = _helper(inner, "body")
        rule = _elem_rule(outer, "S,V", "h(V,S)", ["W : t(W)"], "foo(X)", "")
        out.append(_prog(hl + [rule], "elem/function-table", [["foo", 1]] + hout))
    # static helper: never unfolded
    for inner, outer in [SS, MM, CP]:
        hl, hout = _helper(inner, "static")
        rule = _elem_rule(outer, "S,V", "h(V,S)", ["W : t(W)"], "foo(X)", "")
        out.append(_prog(hl + ["{ t(W) } :- u(W)."] + [rule], "elem/helper-static", [["foo", 1], ["t", 1]]))
    # helper also given by the instance
    for inner, outer in [SS, MM]:
        hl, hout = _helper(inner, "cond")
        rule = _elem_rule(outer, "S,V", "h(V,S)", ["W : t(W)"], "foo(X)", "")
        out.append(_prog(hl + [rule], "elem/helper-is-input", [["foo", 1]] + hout, inn=[["h", 2]]))
    # detailed shapes
    for name, kind, tup, cond, sibs, head, extra, lines, pairs in ELEM_USES:
        for inner, outer in pairs:
            hl, hout = _helper(inner, "cond", kind)
            rule = _elem_rule(outer, tup, cond, sibs, head, extra)
            ar = head.count(",") + 1 if "(" in head else 0
            outp = [["foo", ar]] + hout + ([["bar", 1]] if lines else [])
            out.append(_prog(hl + [rule] + lines, "elem/" + name, outp))
    # sign-sensitive pairs with weights Y-2: #sum+ inside #sum and #sum inside #sum+, with and without sibling
    for (inner, outer), sib in itertools.product(
        [("#sum+", "#sum"), ("#sum", "#sum+"), ("#sum+", "#sum+"), ("#sum", "#sum"), ("#min", "#min")],
        [[], ["W-2,x,x : t(W)"]],
    ):
        hl, hout = _helper(inner, "cond", "shift")
        rule = _elem_rule(outer, "S,V", "h(V,S)", sib, "foo(X)", "")
        out.append(_prog(hl + [rule], "elem/sign-of-weights", [["foo", 1]] + hout))
    return out


# ---------------------------------------------------------------------------------------------------------------------
# use 2: plain body literal next to another aggregate
# ---------------------------------------------------------------------------------------------------------------------

A3 = ["#sum", "#count", "#max"]
A2 = ["#sum", "#min"]
LOW = "low(V) :- h(V,S), S < C, C = #count { W : t(V,W) }."

# (name, helper kind, using statement(s), outputs, aggregate functions)
BODY_USES = [
    ("arith-link", "plain", ["total(V,T) :- h(V,S), T = S + C, C = #count { W : t(V,W) }."], [["total", 2]], SUMLIKE),
    ("cmp-link", "plain", [LOW], [["low", 1]], AGGS),
    ("direct-guard", "plain", ["eq(V) :- h(V,S), S = #sum { W : t(V,W) }."], [["eq", 1]], A3),
    ("direct-guard-constraint", "plain", [":- h(V,S), S != #count { W : t(V,W) }."], [], A3),
    ("no-link", "plain", ["total(V,S,C) :- h(V,S), C = #count { W : t(V,W) }."], [["total", 3]], A2),
    ("no-aggregate", "plain", ["total(V,T) :- h(V,S), T = S + 1."], [["total", 2]], ["#sum", "#count"]),
    ("no-aggregate-cmp", "plain", ["low(V) :- h(V,S), c(V,C), S < C."], [["low", 1]], A2),
    ("link-via-third", "plain", ["total(V,T) :- h(V,S), T = S + 1, T < C, C = #count { W : t(V,W) }."], [["total", 2]], ["#sum", "#count"]),
    ("value-global-in-agg", "plain", ["total(V,S) :- h(V,S), 1 <= #count { W : t(S,W) }."], [["total", 2]], A3),
    ("group-global-in-agg-only", "plain", ["total(V,S) :- h(V,S), 1 <= #count { W : t(V,W) }."], [["total", 2]], A2),
    ("anonymous", "plain", ["low(C) :- h(_,S), S < C, C = #count { W : t(W) }."], [["low", 1]], A2),
    ("const-arg", "plain", ["low(C) :- h(1,S), S < C, C = #count { W : t(W) }."], [["low", 1]], A2),
    ("repeated-arg", "plain", ["low(S) :- h(S,S), S <= #count { W : t(W) }."], [["low", 1]], A2),
    ("name-clash", "plain", ["low(Y,A) :- h(Y,S), S < A, A = #count { Z : t(Y,Z) }."], [["low", 2]], A3),
    ("name-clash-extra", "extra", ["low(Z) :- h(Z,S), S < Y, Y = #count { A : t(Z,A) }."], [["low", 1]], A2),
    ("two-uses-one-stmt", "plain", ["same(V,U) :- h(V,S), h(U,S), V != U, S >= #count { W : t(W) }."], [["same", 2]], A2),
    ("two-uses-two-stmts", "plain", [LOW, "bar(V) :- h(V,S), S > 1."], [["low", 1], ["bar", 1]], A2),
    ("not-arity1", "ar1", ["viol(N) :- c(N), not h(N), N <= #count { W : t(W) }."], [["viol", 1]], AGGS),
    ("not-arity1-assign", "ar1", ["viol(G) :- not h(G), G = #sum { W : t(W) }."], [["viol", 1]], A3),
    ("not-arity1-nolink", "ar1", ["viol(N) :- c(N), not h(N)."], [["viol", 1]], A2),
    ("notnot-arity1", "ar1", ["viol(N) :- c(N), not not h(N), N <= #count { W : t(W) }."], [["viol", 1]], A2),
    ("not-arity2", "plain", ["viol(V) :- c(V,N), not h(V,N), N <= #count { W : t(V,W) }."], [["viol", 1]], A2),
    ("pos-arity1", "ar1", ["low(C) :- h(S), S < C, C = #count { W : t(W) }."], [["low", 1]], A3),
    ("helper-repeated-head", "rep", ["low(V) :- h(V,V,S), S < C, C = #count { W : t(V,W) }."], [["low", 1]], A2),
    ("helper-two-defs", "twodefs", [LOW], [["low", 1]], A2),
    ("helper-value-used", "used", [LOW], [["low", 1]], A2),
    ("helper-bound", "bound", [LOW], [["low", 1]], A2),
    ("helper-agg-over-nonhead-var", "globalagg", [LOW], [["low", 1]], A3),
    ("helper-condlit", "condlit", [LOW], [["low", 1]], A2),
    ("helper-two-elements", "twoel", [LOW], [["low", 1]], A2),
    ("helper-shifted-weights", "shift", [LOW], [["low", 1]], ["#sum", "#sum+"]),
    ("choice-head", "plain", ["{ pick(V) } :- h(V,S), S < C, C = #count { W : t(V,W) }."], [["pick", 1]], A2),
]


def _body_programs():
    out = []
    for name, kind, stms, outp, aggs in BODY_USES:
        for agg in aggs:
            hl, hout = _helper(agg, "cond", kind)
            out.append(_prog(hl + stms, "body/" + name, outp + hout))
    for agg, dyn in itertools.product(A3, ["body", "static"]):
        hl, hout = _helper(agg, dyn)
        extra = ["{ t(V,W) } :- u(V,W)."] if dyn == "static" else []
        out.append(_prog(hl + extra + [LOW], "body/helper-static" if dyn == "static" else "body/cmp-link", [["low", 1]] + hout))
    # helper also given by the instance
    for agg in A2:
        hl, hout = _helper(agg, "cond")
        out.append(_prog(hl + [LOW], "body/helper-is-input", [["low", 1]] + hout, inn=[["h", 2]]))
    # two helpers in one statement
    for agg1, agg2 in [("#count", "#count"), ("#sum", "#count"), ("#sum", "#sum+"), ("#min", "#max")]:
        lines = [
            "{ sel(A,Y) } :- p(A,Y).",
            f"h(A,S) :- a(A), S = {agg1} {{ Y : sel(A,Y) }}.",
            f"k(A,S) :- a(A), S = {agg2} {{ Y : sel(A,Y), q(Y) }}.",
        ]
        if agg1 == "#min":
            lines.append(":- h(V,G), k(V,D), G > D.")
        else:
            lines.append(":- c(V,N), h(V,G), k(V,D), N != G + D.")
        out.append(_prog(lines, "body/two-helpers", [["sel", 2]]))
    return out


# ---------------------------------------------------------------------------------------------------------------------
# use 3: weight of an objective
# ---------------------------------------------------------------------------------------------------------------------

O3 = ["#sum", "#count", "#min"]
O2 = ["#sum", "#count"]

# (name, helper kind or None for the aggregate written in the weak constraint, statements, aggregate functions)
OBJ_USES = [
    ("weak", "plain", [":~ h(V,S). [S@1,V]"], AGGS),
    ("minimize", "plain", ["#minimize { S@1,V : h(V,S) }."], O3),
    ("maximize", "plain", ["#maximize { S@1,V : h(V,S) }."], O3),
    ("group-var-dropped", "plain", [":~ h(V,S). [S@1]"], SUMLIKE),
    ("extra-body", "plain", [":~ h(V,S), c(V). [S@1,V]"], O3),
    ("weight-expr", "plain", [":~ h(V,S). [S+1@1,V]"], O2),
    ("value-not-weight", "plain", [":~ h(V,S). [1@1,V,S]"], O3),
    ("value-also-priority", "plain", [":~ h(V,S). [S@S,V]"], O2),
    ("value-also-term", "plain", [":~ h(V,S). [S@1,V,S]"], O2),
    ("priority-var", "plain", [":~ h(V,S), c(V,P). [S@P,V]"], O2),
    ("anonymous", "plain", [":~ h(_,S). [S@1]"], O2),
    ("const-arg", "plain", [":~ h(1,S). [S@1]"], O2),
    ("not-arity1", "ar1", [":~ c(G), not h(G). [G@1]"], O3),
    ("pos-arity1", "ar1", [":~ h(S). [S@1]"], O3),
    ("helper-two-elements", "twoel", [":~ h(V,S). [S@1,V]"], O3),
    ("helper-two-elements-same", "twoelsame", [":~ h(V,S). [S@1,V]"], O2),
    ("helper-extra-literal", "extra", [":~ h(V,S). [S@1,V]"], O2),
    ("helper-agg-over-nonhead-var", "globalagg", [":~ h(V,S). [S@1,V]"], O3),
    ("helper-shifted-weights", "shift", [":~ h(V,S). [S@1,V]"], SUMLIKE),
    ("helper-tuple2", "tuple2", [":~ h(V,S). [S@1,V]"], O2),
    ("helper-two-defs", "twodefs", [":~ h(V,S). [S@1,V]"], O2),
    ("helper-bound", "bound", [":~ h(V,S). [S@1,V]"], O2),
    ("direct", None, [":~ a(A), S = {agg} {{ Y : sel(A,Y) }}. [S@1,A]"], AGGS),
    ("direct-shifted-weights", None, [":~ a(A), S = {agg} {{ Y-2,Y : sel(A,Y) }}. [S@1,A]"], SUMLIKE),
    ("direct-group-var-dropped", None, [":~ a(A), S = {agg} {{ Y : sel(A,Y) }}. [S@1]"], SUMLIKE),
    ("direct-value-used", None, [":~ c(A,S), S = {agg} {{ Y : sel(A,Y) }}. [S@1,A]"], O2),
    ("direct-bound", None, [":~ a(A), S = {agg} {{ Y : sel(A,Y) }} > 1. [S@1,A]"], O2),
    ("direct-two-aggs", None, [":~ a(A), S = {agg} {{ Y : sel(A,Y) }}, T = {agg} {{ Y : q(A,Y) }}. [S@1,A]"], O2),
    ("direct-negative-weight", None, [":~ a(A), S = {agg} {{ Y : sel(A,Y) }}. [-S@1,A]"], O2),
    ("direct-value-also-term", None, [":~ a(A), S = {agg} {{ Y : sel(A,Y) }}. [S@1,A,S]"], O2),
]

# sibling objectives: (name, tuple of the helper objective, sibling statements)
OBJ_SIBS = [
    ("sib-unifies", ":~ h(V,S). [S@1,V]", [":~ t(U,W). [W@1,U]"]),
    ("sib-other-priority", ":~ h(V,S). [S@1,V]", [":~ t(U,W). [W@2,U]"]),
    ("sib-other-length", ":~ h(V,S). [S@1,V]", [":~ t(U,W). [W@1,U,x]"]),
    ("sib-const-distinct", ":~ h(V,S). [S@1,V,x]", [":~ t(U,W). [W@1,U,y]"]),
    ("sib-const-same", ":~ h(V,S). [S@1,V,x]", [":~ t(U,W). [W@1,U,x]"]),
    ("sib-collides-with-padding", ":~ h(V,S). [S@1,V]", [":~ t(U,W). [W@1,U,unique]"]),
    ("sib-longer", ":~ h(V,S). [S@1,V]", [":~ t(U,W), b(U,K). [W@1,K,U]"]),
    ("sib-in-one-minimize", "#minimize { S@1,V,x : h(V,S); W@1,U,y : t(U,W) }.", []),
    ("sib-in-one-minimize-unifies", "#minimize { S@1,V : h(V,S); W@1,U : t(U,W) }.", []),
]


def _obj_programs():
    out = []
    for name, kind, stms, aggs in OBJ_USES:
        for agg in aggs:
            if kind is None:
                lines = ["{ sel(A,Y) } :- p(A,Y)."] + [s.format(agg=agg) for s in stms]
                hout = [["sel", 2]]
            else:
                hl, hout = _helper(agg, "cond", kind)
                lines = hl + stms
            out.append(_prog(lines, "obj/" + name, hout))
    for agg, dyn in itertools.product(O2, ["body", "static"]):
        hl, hout = _helper(agg, dyn)
        extra = ["{ t(W) } :- u(W).", ":~ t(W). [W@2]"] if dyn == "static" else []
        out.append(_prog(hl + extra + [":~ h(V,S). [S@1,V]"], "obj/helper-static" if dyn == "static" else "obj/weak", hout or [["t", 1]]))
        if dyn == "static":
            lines = ["{ t(W) } :- u(W).", ":~ t(W). [W@2]", f":~ a(A), S = {agg} {{ Y : p(A,Y) }}. [S@1,A]"]
            out.append(_prog(lines, "obj/direct-static", [["t", 1]]))
    for agg in O2:
        hl, hout = _helper(agg, "cond")
        out.append(_prog(hl + [":~ h(V,S). [S@1,V]"], "obj/helper-is-input", hout, inn=[["h", 2]]))
    for (name, stm, sibs), agg in itertools.product(OBJ_SIBS, O2):
        kind = "tuple2" if name == "sib-longer" else "plain"
        hl, hout = _helper(agg, "cond", kind)
        out.append(_prog(hl + [stm] + sibs, "obj/" + name, hout))
    # two aggregates in two weak constraints: identical / distinguishable tuples
    for agg, (t1, t2) in itertools.product(O2, [("[S@1,A]", "[S@1,A]"), ("[S@1,A,l]", "[S@1,A,r]"), ("[S@1,A]", "[T@1,A]"), ("[S@1,A]", "[S@2,A]")]):
        v2 = "T" if "T" in t2 else "S"
        lines = [
            "{ sel(A,Y) } :- p(A,Y).",
            f":~ a(A), S = {agg} {{ Y : sel(A,Y) }}. {t1}",
            f":~ a(A), {v2} = {agg} {{ Y : q(A,Y) }}. {t2}",
        ]
        tag = "identical" if t1 == t2 else ("unifying" if v2 == "T" else "distinct")
        out.append(_prog(lines, "obj/two-direct-" + tag, [["sel", 2]]))
    # two helpers in two objectives
    for agg, (t1, t2) in itertools.product(O2, [("[S@1,V]", "[S@1,V]"), ("[S@1,V,l]", "[S@1,V,r]")]):
        lines = [
            "{ sel(A,Y) } :- p(A,Y).",
            f"h(A,S) :- a(A), S = {agg} {{ Y : sel(A,Y) }}.",
            f"k(A,S) :- a(A), S = {agg} {{ Y : sel(A,Y), q(Y) }}.",
            f":~ h(V,S). {t1}",
            f":~ k(V,S). {t2}",
        ]
        out.append(_prog(lines, "obj/two-helpers-" + ("identical" if t1 == t2 else "distinct"), [["sel", 2]]))
    return out


# ---------------------------------------------------------------------------------------------------------------------
# sums of aggregates in a weight / in arithmetic (math rewrites them into one aggregate, inline unfolds that)
# ---------------------------------------------------------------------------------------------------------------------


def _math_programs():
    out = []
    weights = ["Z+X+Y", "X+Y", "Z+X", "X+Y+1", "X-Y", "2*X+Y"]
    for w, kind in itertools.product(weights, ["atoms", "sum", "choice"]):
        body = "f(Z); " if "Z" in w else ""
        if kind == "atoms":
            lines = [f":~ {body}X = #count {{ a : a }}, Y = #count {{ b : b }}. [{w}@1]"]
            outp = []
        elif kind == "sum":
            lines = [f":~ {body}X = #sum {{ W : t(W) }}, Y = #count {{ W : u(W) }}. [{w}@1]"]
            outp = []
        else:
            lines = ["{ sel(W) } :- t(W).", f":~ {body}X = #sum {{ W : sel(W) }}, Y = #count {{ W : u(W), sel(W) }}. [{w}@1]"]
            outp = [["sel", 1]]
        out.append(_prog(lines, "math/sum-of-aggregates-in-weight", outp))
    for w in ["Z+X+Y", "Z+X"]:
        lines = ["{ sel(W) } :- t(W).", f":~ f(Z); X = #sum {{ W : sel(W) }}, Y = #count {{ W : u(W), sel(W) }}. [{w}@1,Z]"]
        out.append(_prog(lines, "math/sum-of-aggregates-in-weight-with-term", [["sel", 1]]))
    # helper + arithmetic in a rule body
    for agg, link in itertools.product(O2, ["T = S + C", "T = S - C", "T = C + S + 1", "S + C = T"]):
        hl, hout = _helper(agg, "cond", "ar1")
        lines = hl + [f"total(T) :- h(S), {link}, C = #count {{ W : t(W) }}."]
        out.append(_prog(lines, "math/helper-arith-link", [["total", 1]] + hout))
    for agg, w in itertools.product(O2, ["S+C", "S-C", "C+S+1"]):
        hl, hout = _helper(agg, "cond", "ar1")
        lines = hl + [f":~ h(S), C = #count {{ W : t(W) }}. [{w}@1]"]
        out.append(_prog(lines, "math/helper-sum-in-weight", hout))
    for agg, w in itertools.product(O2, ["S+C", "S+V"]):
        hl, hout = _helper(agg, "cond")
        lines = hl + [f":~ h(V,S), C = #count {{ W : t(V,W) }}. [{w}@1,V]"]
        out.append(_prog(lines, "math/helper-sum-in-weight-grouped", hout))
    return out


def programs():
    out = []
    out.extend(_elem_programs())
    out.extend(_body_programs())
    out.extend(_obj_programs())
    out.extend(_math_programs())
    seen = set()
    res = []
    for p in out:
        if p["program"] in seen:
            continue
        seen.add(p["program"])
        res.append(p)
    return res
