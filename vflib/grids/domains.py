"""Grid for the generated domain / min / max / next / chain predicates of ngo.dependency.DomainPredicates
(property C20), reached through the three passes that use them: minmax_chains (domain of the element
condition, __min/__max/__next over it), sum_chains (domain of the at-most-one predicate, per-group
__min/__max/__next/__chain) and symmetry (projected __dom_p(G,_) guard of the count aggregate).

Spanned side conditions = how the approximated predicate p is defined (one *definition shape* per tag) x
number of group positions (0..2) x consumer:
 * static analysis (is_static / _too_complex): choice, choice with element condition, bounded choice, head
   aggregate, disjunction (plain / conditional), recursion (self loop, mutual, through negation: must be
   rejected), static p, p given by the instance only, derived one / two levels above a choice, classically
   negated head atoms;
 * domain rules (add_domain_rules): negation of a choice predicate in the defining body (`not q`, `not not q`,
   in a normal rule and in a choice rule; q covering all or only a part of the base domain), negation of a
   static predicate, several rules, extra fact, conditional literals in the body (dynamic literal / dynamic
   condition), element condition that is itself choice-defined, body aggregates (dynamic count as assignment
   and as guard: must be rejected; static count: allowed), comparison in the body;
 * head terms: intervals (`p(1..3)`, `V = N..N+1`), arithmetic in the head, arithmetic via assignment, inverse
   arithmetic in the body (`d(V-1)`), alias `W = V`, pools, function term as value / as group, constant group;
 * minmax_chains consumers: #max / #min per group, #min over all groups, bounded #max, and an element
   condition that negates the choice predicate (`#max { V : d(G,V), not p(G,V) }`);
 * symmetry consumers: != / < on the value position (rule, constraint, inside #count), != on the group;
 * sum_chains only: at-most-one recognition (bound 1 / exactly 1 / #count and #sum head / bound 2 / second
   rule / mixed elements / global value variable) combined with the same definition dimensions, plus an
   extra projected (annotated) position before or after the value.
Base domains (d, g, h, n, x, e, t, v) are input predicates, so gaps, several groups, groups without elements,
single values and symbolic values come from the instance generator.
"""
import itertools  # noqa: F401

GV = ["G", "H"]


def _a(name, k, last="V", groups=None):
    gs = list(groups) if groups is not None else GV[:k]
    args = gs + ([last] if last is not None else [])
    if not args:
        return name
    return f"{name}({','.join(args)})"


def _rule(head, body=()):
    body = [b for b in body if b]
    if body:
        return f"{head} :- {', '.join(body)}."
    return f"{head}."


def _gb(k):
    return ["g(G)", "h(H)"][:k]


def _tmpl(k, groups=None, name="p", after=()):
    """format string for the approximated atom: placeholders {g0} {g1} (group variables) and {v} (value)"""
    gs = list(groups) if groups is not None else ["{g0}", "{g1}"][:k]
    return name + "(" + ",".join(gs + ["{v}"] + list(after)) + ")"


def _pa(tmpl, v="V", g0="G", g1="H"):
    return tmpl.format(v=v, g0=g0, g1=g1)


def _collector():
    defs = []

    def add(name, ks=(0, 1)):
        def deco(fn):
            defs.append((name, fn, tuple(ks)))
            return fn

        return deco

    return defs, add


K012 = (0, 1, 2)


def P(k, last="V"):
    return _a("p", k, last)


def D(k, last="V"):
    return _a("d", k, last)


def Q(k, last="V"):
    return _a("q", k, last)


# ---------------------------------------------------------------------------------------------------------
# general definition shapes: fn(k) -> statements | (statements, template of p for the consumer)
# ---------------------------------------------------------------------------------------------------------


def _general_defs():
    defs, add = _collector()

    @add("choice", K012)
    def _(k):
        return [_rule("{ %s }" % P(k), [D(k)])]

    @add("choice-cond")
    def _(k):
        return [_rule("{ %s : %s }" % (P(k), D(k)), _gb(k))]

    @add("bounded")
    def _(k):
        return [_rule("1 { %s : %s } 2" % (P(k), D(k)), _gb(k))]

    @add("headagg-count")
    def _(k):
        return [_rule("#count { V : %s : %s } <= 2" % (P(k), D(k)), _gb(k))]

    @add("disjunction")
    def _(k):
        return [_rule("%s ; %s" % (P(k), _a("np", k)), [D(k)])]

    @add("disjunction-cond")
    def _(k):
        return [_rule("%s : %s ; %s" % (P(k), D(k), _a("none", k, None)), _gb(k))]

    @add("rec-self", K012)
    def _(k):
        return [_rule("{ %s }" % P(k), [D(k)]), _rule(P(k), [P(k, "W"), "e(W,V)"])]

    @add("rec-mutual")
    def _(k):
        return [_rule("{ %s }" % Q(k), [D(k)]), _rule(P(k), [Q(k)]), _rule(Q(k), [P(k, "W"), "e(W,V)"])]

    @add("rec-neg")
    def _(k):
        return [_rule(P(k), [D(k), "not " + _a("np", k)]), _rule(_a("np", k), [D(k), "not " + P(k)])]

    @add("neg-choice-pred", K012)
    def _(k):
        return [_rule("{ %s }" % Q(k), [D(k)]), _rule(P(k), [D(k), "not " + Q(k)])]

    @add("notnot-choice-pred")
    def _(k):
        return [_rule("{ %s }" % Q(k), [D(k)]), _rule(P(k), [D(k), "not not " + Q(k)])]

    @add("neg-static")
    def _(k):
        return [_rule("{ %s }" % P(k), [D(k), "not x(V)"])]

    @add("neg-partial-in-choice-body", K012)
    def _(k):
        # __dom_q covers only d ∩ x: `not __dom_q` leaves a non-empty but too small domain
        return [_rule("{ %s }" % Q(k), [D(k), "x(V)"]), _rule("{ %s }" % P(k), [D(k), "not " + Q(k)])]

    @add("two-rules")
    def _(k):
        return [_rule("{ %s }" % P(k), [D(k)]), _rule(P(k), [_a("x", k)])]

    @add("extra-fact", (1,))
    def _(k):
        return [_rule("{ %s }" % P(k), [D(k)]), _rule(_a("p", k, "5", groups=["c"] * k))]

    @add("interval-head", K012)
    def _(k):
        if k == 2:
            return [_rule("{ p(G,H,1..2) } 1", ["gh(G,H)"])]
        return [_rule("{ %s }" % _a("p", k, "1..3"), _gb(k))]

    @add("interval-var")
    def _(k):
        return [_rule("{ %s }" % P(k), ["V = N..N+1", _a("n", k, "N")])]

    @add("arith-head", K012)
    def _(k):
        return [_rule("{ %s }" % P(k, "V+1"), [D(k)])]

    @add("arith-assign")
    def _(k):
        return [_rule("{ %s }" % P(k, "W"), [D(k), "W = V+1"])]

    @add("arith-inverse")
    def _(k):
        return [_rule("{ %s }" % P(k), [D(k, "V-1")])]

    @add("alias", (1,))
    def _(k):
        return [_rule("{ %s }" % P(k, "W"), [D(k), "W = V"])]

    @add("func-value")
    def _(k):
        return [_rule("{ %s }" % P(k, "f(V)"), [D(k)])]

    @add("func-group", (1,))
    def _(k):
        tm = _tmpl(k, ["f({g0})", "{g1}"][:k])
        return [_rule("{ %s }" % _pa(tm), [D(k)])], tm

    @add("const-group", (1,))
    def _(k):
        groups = ["c"] + GV[1:k]
        return [_rule("{ %s }" % _a("p", k, "V", groups), [_a("d", k, "V", groups)])]

    @add("bodyagg-dynamic", K012)
    def _(k):
        return [_rule("{ %s }" % Q(k), [D(k)]), _rule(P(k, "N"), _gb(k) + ["N = #count { V : %s }" % Q(k)])]

    @add("bodyagg-static")
    def _(k):
        s = _a("s", k, None)
        return [_rule("{ %s }" % s, _gb(k)), _rule(P(k, "N"), [s, "N = #count { V : %s }" % D(k)])]

    @add("bodyagg-guard")
    def _(k):
        return [_rule("{ %s }" % Q(k), [D(k)]), _rule(P(k), [D(k), "1 <= #count { W : %s }" % Q(k, "W")])]

    @add("two-levels", K012)
    def _(k):
        return [_rule("{ %s }" % Q(k), [D(k)]), _rule(_a("m", k), [Q(k)]), _rule(P(k), [_a("m", k)])]

    @add("static")
    def _(k):
        return [_rule(P(k), [D(k), "x(V)"])]

    @add("input-only")
    def _(k):
        return []

    @add("elemcond-choice-pred", K012)
    def _(k):
        return [_rule("{ %s }" % Q(k), [D(k)]), _rule("{ %s : %s }" % (P(k), Q(k)), _gb(k))]

    @add("pool-head", (0,))
    def _(k):
        return [_rule("{ %s }" % P(k, "(V;V+1)"), [D(k)])]

    @add("comparison", (1,))
    def _(k):
        return [_rule("{ %s }" % P(k), [D(k), "V > 1"])]

    @add("condlit-dynamic-literal")
    def _(k):
        return [_rule("{ %s }" % Q(k), [D(k)]), _rule(P(k), [D(k), "%s : x(W)" % Q(k, "W")])]

    @add("condlit-dynamic-condition", K012)
    def _(k):
        return [_rule("{ %s }" % Q(k), [D(k)]), _rule(P(k), [D(k), "x(W) : %s" % Q(k, "W")])]

    @add("classneg-rule-head", (0,))
    def _(k):
        return [_rule("-" + Q(k), [D(k), "x(V)"]), _rule("{ %s }" % P(k), [D(k), "not -" + Q(k)])]

    @add("classneg-choice-head", (1,))
    def _(k):
        return [_rule("{ -%s }" % Q(k), [D(k)]), _rule("{ %s }" % P(k), [D(k), "-" + Q(k)])]

    return defs


# consumers: fn(k, tmpl) -> statements


def _mm_consumers():
    def max_group(k, tm):
        return [_rule(_a("best", k, "M"), _gb(k) + ["M = #max { V : %s }" % _pa(tm)])]

    def min_group(k, tm):
        return [_rule(_a("least", k, "M"), _gb(k) + ["M = #min { V : %s }" % _pa(tm)])]

    def min_global(k, tm):
        # groups are local to the aggregate: one domain over all groups
        tup = ",".join(["V"] + ["A", "B"][:k])
        return [_rule("least(M)", ["M = #min { %s : %s }" % (tup, _pa(tm, "V", "A", "B"))])]

    def max_negelem(k, tm):
        # the element condition negates the approximated predicate
        return [_rule(_a("free", k, "M"), _gb(k) + ["M = #max { V : %s, not %s }" % (D(k), _pa(tm))])]

    def max_bound(k, tm):
        return [_rule(_a("low", k, None), _gb(k) + ["#max { V : %s } < 2" % _pa(tm)])]

    return [("max", max_group), ("minglobal", min_global), ("min", min_group), ("maxbound", max_bound)], max_negelem


def _sym_consumers():
    def neq(k, tm):
        return [_rule(_a("two", k, None), [_pa(tm, "X"), _pa(tm, "Y"), "X != Y"])]

    def less(k, tm):
        return [_rule(_a("two", k, None), [_pa(tm, "X"), _pa(tm, "Y"), "X < Y"])]

    def constraint(k, tm):
        return [":- %s, %s, X != Y." % (_pa(tm, "X"), _pa(tm, "Y"))]

    def in_agg(k, tm):
        tup = ",".join(GV[:k]) if k else "1"
        return [_rule("cnt(N)", ["N = #count { %s : %s, %s, X < Y }" % (tup, _pa(tm, "X"), _pa(tm, "Y"))])]

    def group_neq(k, tm):
        if k == 0:
            return neq(k, tm)
        return [_rule("shared(V)", [_pa(tm, "V", "G1"), _pa(tm, "V", "G2"), "G1 != G2"])]

    return [("neq", neq), ("less", less), ("constraint", constraint), ("inagg", in_agg), ("groupneq", group_neq)]


# ---------------------------------------------------------------------------------------------------------
# sum_chains: p must be defined by a single at-most-one head aggregate
# ---------------------------------------------------------------------------------------------------------


def _sum_defs():
    defs, add = _collector()

    @add("atmost1-joint", K012)
    def _(k):
        return [_rule("{ %s : %s } 1" % (P(k), D(k)), _gb(k))]

    @add("atmost1-separate")
    def _(k):
        return [_rule("{ %s : v(V) } 1" % P(k), _gb(k))]

    @add("exactly1")
    def _(k):
        return [_rule("1 = { %s : %s }" % (P(k), D(k)), _gb(k))]

    @add("count-head")
    def _(k):
        # k = 0: tuple starts with the value (not recognised), k = 1: tuple starts with a positive number
        tup = "V" if k == 0 else "1,V"
        return [_rule("#count { %s : %s : %s } <= 1" % (tup, P(k), D(k)), _gb(k))]

    @add("sum-head")
    def _(k):
        return [_rule("#sum { 1,V : %s : %s } <= 1" % (P(k), D(k)), _gb(k))]

    @add("nearmiss-bound2")
    def _(k):
        return [_rule("{ %s : %s } 2" % (P(k), D(k)), _gb(k))]

    @add("nearmiss-global-value")
    def _(k):
        return [_rule("{ %s } 1" % P(k), [D(k)])]

    @add("nearmiss-second-rule")
    def _(k):
        return [_rule("{ %s : %s } 1" % (P(k), D(k)), _gb(k)), _rule(P(k), [_a("x", k)])]

    @add("nearmiss-mixed-elements")
    def _(k):
        return [_rule("{ %s : %s ; %s } 1" % (P(k), D(k), P(k, "0")), _gb(k))]

    @add("interval-cond", K012)
    def _(k):
        return [_rule("{ %s : V = 1..3 } 1" % P(k), _gb(k))]

    @add("interval-head")
    def _(k):
        return [_rule("{ %s } 1" % P(k, "1..3"), _gb(k))]

    @add("interval-var", K012)
    def _(k):
        return [_rule("{ %s : V = N..N+1, %s } 1" % (P(k), _a("n", k, "N")), _gb(k))]

    @add("arith-head")
    def _(k):
        return [_rule("{ %s : %s } 1" % (P(k, "V+1"), D(k)), _gb(k))]

    @add("arith-assign")
    def _(k):
        return [_rule("{ %s : %s, W = V+1 } 1" % (P(k, "W"), D(k)), _gb(k))]

    @add("neg-partial-choice-pred", K012)
    def _(k):
        return [
            _rule("{ %s }" % Q(k), [D(k), "x(V)"]),
            _rule("{ %s : %s, not %s } 1" % (P(k), D(k), Q(k)), _gb(k)),
        ]

    @add("elemcond-choice-pred", K012)
    def _(k):
        return [_rule("{ %s }" % Q(k), [D(k)]), _rule("{ %s : %s } 1" % (P(k), Q(k)), _gb(k))]

    @add("neg-in-body")
    def _(k):
        s = _a("s", k, None)
        return [_rule("{ %s }" % s, _gb(k)), _rule("{ %s : %s } 1" % (P(k), D(k)), _gb(k) + ["not " + s])]

    @add("rec-neg-self", K012)
    def _(k):
        return [_rule("{ %s : %s } 1" % (P(k), D(k)), _gb(k) + ["not " + P(k, "0")])]

    @add("bodyagg-dynamic", K012)
    def _(k):
        return [
            _rule("{ %s }" % Q(k), [D(k)]),
            _rule("{ %s : %s } 1" % (P(k), D(k)), _gb(k) + ["1 <= #count { W : %s }" % Q(k, "W")]),
        ]

    @add("bodyagg-static")
    def _(k):
        return [_rule("{ %s : %s } 1" % (P(k), D(k)), _gb(k) + ["1 <= #count { W : %s }" % D(k, "W")])]

    @add("func-group", (1,))
    def _(k):
        tm = _tmpl(k, ["f({g0})", "{g1}"][:k])
        return [_rule("{ %s : %s } 1" % (_pa(tm), D(k)), _gb(k))], tm

    @add("pool-head")
    def _(k):
        return [_rule("{ %s : %s } 1" % (P(k, "(V;V+1)"), D(k)), _gb(k))]

    @add("comparison")
    def _(k):
        return [_rule("{ %s : %s, V > 1 } 1" % (P(k), D(k)), _gb(k))]

    @add("extra-annotated-position")
    def _(k):
        if k == 0:  # value first, projected position after it
            return [_rule("{ p(V,T) : t(V,T) } 1")], _tmpl(0, after=["_"])
        return [_rule("{ p(G,T,V) : t(T,V) } 1", _gb(k))], _tmpl(1, ["{g0}", "_"])

    return defs


def _sum_consumers():
    def total(k, tm):
        tup = ",".join(["V"] + GV[:k])
        return [_rule("total(S)", ["S = #sum { %s : %s }" % (tup, _pa(tm))])]

    def per_group(k, tm):
        return [_rule(_a("load", k, "S"), _gb(k) + ["S = #sum { V : %s }" % _pa(tm)])]

    def minimize(k, tm):
        tup = ",".join(["V@1"] + GV[:k])
        return [":~ %s. [%s]" % (_pa(tm), tup)]

    def maximize(k, tm):
        tup = ",".join(["-V@1"] + GV[:k])
        return [":~ %s. [%s]" % (_pa(tm), tup)]

    return [("total", total), ("pergroup", per_group), ("minimize", minimize), ("maximize", maximize)]


def programs():
    out = []
    seen = set()

    def emit(stmts, tag):
        text = "\n".join(stmts) + "\n"
        if text in seen:
            return
        seen.add(text)
        out.append({"program": text, "tag": tag})

    def split(res, k):
        if isinstance(res, tuple):
            return res[0], res[1]
        return res, _tmpl(k)

    mm, negelem = _mm_consumers()
    sym = _sym_consumers()
    negelem_defs = ("choice", "two-levels", "bodyagg-static", "interval-head", "static", "input-only")
    for di, (name, fn, ks) in enumerate(_general_defs()):
        for k in ks:
            stmts, tm = split(fn(k), k)
            n_each = 2 if k < 2 else 1
            for j in range(n_each):
                _, cfn = mm[(di + k + j * (1 + di % 3)) % len(mm)]
                emit(stmts + cfn(k, tm), name)
            if name in negelem_defs and k < 2:
                # the element condition negates the approximated predicate: its domain must not be negated
                emit(stmts + negelem(k, tm), "negelem-" + name)
            for j in range(n_each):
                _, cfn = sym[(di + 2 * k + j * 2) % len(sym)]
                emit(stmts + cfn(k, tm), name)

    sc = _sum_consumers()
    for di, (name, fn, ks) in enumerate(_sum_defs()):
        for k in ks:
            stmts, tm = split(fn(k), k)
            n_each = 2 if k < 2 else 1
            for j in range(n_each):
                _, cfn = sc[(di + k + j * 2) % len(sc)]
                emit(stmts + cfn(k, tm), "sum-" + name)

    # several consumers of the same approximated predicate / consumer bodies that are themselves choice-defined
    ch = "{ p(G,V) } :- d(G,V)."
    am = "{ p(G,V) : d(G,V) } 1 :- g(G)."
    best = "best(G,M) :- g(G), M = #max { V : p(G,V) }."
    least = "least(G,M) :- g(G), M = #min { V : p(G,V) }."
    emit([ch, best, least], "multi-consumer")
    emit([ch, best, "two(G) :- p(G,X), p(G,Y), X != Y."], "multi-consumer")
    emit([am, "total(S) :- S = #sum { V,G : p(G,V) }.", ":~ p(G,V). [V@1,G]"], "multi-consumer")
    emit([am, "total(S) :- S = #sum { V,G : p(G,V) }.", best], "multi-consumer")
    sel = "{ s(G) } :- g(G)."
    emit([ch, sel, "best(G,M) :- s(G), M = #max { V : p(G,V) }."], "dynbody-pos")
    emit([ch, sel, "best(G,M) :- g(G), not s(G), M = #max { V : p(G,V) }."], "dynbody-neg")
    emit([ch, sel, "least(G,M) :- g(G), not not s(G), M = #min { V : p(G,V) }."], "dynbody-notnot")
    return out
