"""Grid for the `cleanup` pass (ngo/cleanup.py, property C08).

Side conditions spanned (firing side and near miss for each):
* intersection over ALL defining rules of the dominating predicate (1-3 rules; shared / not shared / shared at another
  argument position / shared with another sign / a fact among the rules / mixed head kinds);
* head kinds of the defining rule: plain, choice, choice with element condition (global and local variables),
  several elements, disjunction (with and without conditions), #sum / #count head aggregates, and the same
  predicate occurring TWICE in one head (the element conditions must be intersected, not united);
* argument maps: permuted, repeated in body, repeated in head, integer / symbolic constants, function terms,
  arity 3, arity 0, arithmetic terms introduced by inlining `Y = X+1`;
* implication chains of length 2-3 with every sign at every link (closure only through positive links), probed with
  the dominated literal positive / not / not not; all links are choice rules, so that nothing is implied "backwards"
  by completion and every near miss is a real one; composition of argument maps along a chain;
* sign of the dominating literal (a negative literal never dominates) and of the dominated literal (must be equal to
  the sign in the defining rule);
* same-predicate pairs: equal arguments, `_`, swapped, repeated, other variable, every sign combination, negative lhs;
* scopes: body, conditional-literal condition, #sum/#min/#max/#count/#sum+ element condition; no leaking between
  body and conditions, between two conditions, between two aggregate elements, from the head of a conditional literal;
* the dominating predicate (or a middle link of a chain) additionally declared as input (`in`): closed-world
  reasoning must be switched off for it;
* `#true` / `#false` (plain, `not`, `not not`) in bodies, constraints, choice rules, weak constraints, #minimize,
  conditions, heads of conditional literals, aggregate elements, as the only literal, in rule heads;
* recursion / loops through the dominating predicate.
Base facts always come from input predicates (dom/1, q/1, r/2, e/2, z/1, ...), so the instance generator makes the
supposedly implied atom false in some instances.  The conditional-literal scope uses `a(Z) :- z(Z), e(Z,X) : ...`
(a sparse binary head) so that a wrongly deleted condition literal is observable.
"""
import itertools

SIGNS = {"p": "", "n": "not ", "d": "not not "}


def _prog(out, stms, tag, inn=None):
    rec = {"program": "\n".join(stms) + "\n", "tag": tag}
    if inn:
        rec["in"] = [list(x) for x in inn]
    out.append(rec)


def _head(hv):
    return f"a({hv})" if hv else "a"


def _cond(lits, var="X"):
    """use rule with the literals in the condition of a conditional literal"""
    return f"a(Z) :- z(Z), e(Z,{var}) : {lits}."


# ---------------------------------------------------------------------------------------------------------------
def _isect(out):
    """F1: the dominating predicate b/2 is defined by 1-3 rules; dom(X) is / is not common to all of them"""
    defs = [
        ("one", True, ["b(X,Y) :- dom(X), r(X,Y)."]),
        ("two-shared", True, ["b(X,Y) :- dom(X), r(X,Y).", "b(X,Y) :- dom(X), q(Y), r(Y,X)."]),
        ("two-shared-renamed", True, ["b(X,Y) :- dom(X), r(X,Y).", "b(A,B) :- r(B,A), q(B), dom(A)."]),
        ("two-notshared", False, ["b(X,Y) :- dom(X), r(X,Y).", "b(X,Y) :- q(X), r(Y,X)."]),
        ("two-otherpos", False, ["b(X,Y) :- dom(X), r(X,Y).", "b(X,Y) :- dom(Y), r(Y,X)."]),
        ("two-othersign", False, ["b(X,Y) :- dom(X), r(X,Y).", "b(X,Y) :- not dom(X), q(X), r(Y,X)."]),
        ("two-mixedheads", True, ["b(X,Y) :- dom(X), r(X,Y).", "{ b(X,Y) : dom(X) } :- r(Y,X)."]),
        ("two-mixedheads-not", False, ["b(X,Y) :- dom(X), r(X,Y).", "{ b(X,Y) : q(X) } :- r(Y,X)."]),
        (
            "three-shared",
            True,
            ["b(X,Y) :- dom(X), r(X,Y).", "{ b(X,Y) } :- dom(X), q(Y), r(Y,X).", "b(X,X) :- dom(X), q(X)."],
        ),
        ("three-fact", False, ["b(X,Y) :- dom(X), r(X,Y).", "b(X,Y) :- dom(X), q(Y), r(Y,X).", "b(1,2)."]),
        (
            "three-notshared",
            False,
            ["b(X,Y) :- dom(X), r(X,Y).", "b(X,Y) :- dom(X), q(Y), r(Y,X).", "b(X,X) :- q(X)."],
        ),
    ]
    uses = [
        ("body", ["a(X,Y) :- b(X,Y), dom(X)."]),
        ("weak", ["{ sel(Y) } :- q(Y).", ":~ b(X,Y), dom(X), sel(Y). [1@0,X,Y]"]),
        ("cond", [_cond("b(X,Y), dom(X)")]),
        ("count", ["a(N) :- N = #count { X,Y : b(X,Y), dom(X) }."]),
    ]
    for (dn, share, ds), (un, us) in itertools.product(defs, uses):
        if dn in ("two-mixedheads-not", "three-notshared", "two-shared-renamed") and un in ("weak", "count"):
            continue
        if dn == "three-shared" and un == "count":
            continue
        _prog(out, ds + us, f"isect-{'shared' if share else 'notshared'}")


# ---------------------------------------------------------------------------------------------------------------
def _heads(out):
    """F2: kind of head of the rule that defines b/2 and place (element condition / body) of dom(X)"""
    kinds = [
        ("single", ["b(X,Y) :- r(X,Y), dom(X)."]),
        ("single", ["{ b(X,Y) } :- r(X,Y), dom(X)."]),
        ("single", ["{ b(X,Y) : dom(X) } :- r(X,Y)."]),
        ("single", ["{ b(X,Y) : r(X,Y), dom(X) }."]),
        ("multi", ["{ b(X,Y) : dom(X); g(X,Y) : q(Y) } :- r(X,Y)."]),
        ("multi-other", ["{ g(X,Y) : dom(X); b(X,Y) : q(Y) } :- r(X,Y)."]),
        ("multi", ["b(X,Y); g(X,Y) :- r(X,Y), dom(X)."]),
        ("multi", ["b(X,Y) : dom(X); g(X,Y) : q(Y) :- r(X,Y)."]),
        ("multi-other", ["g(X,Y) : dom(X); b(X,Y) : q(Y) :- r(X,Y)."]),
        ("aggregate", ["#sum { 1,X,Y : b(X,Y) : r(X,Y), dom(X) } 2."]),
        ("aggregate", ["#sum { 1 : b(X,Y); 1 : g(X,Y) } 1 :- r(X,Y), dom(X)."]),
        ("aggregate", ["#count { X,Y : b(X,Y) : r(X,Y), dom(X); X,Y : g(X,Y) : r(X,Y), q(X) } 2."]),
        ("twice", ["{ b(X,Y) : r(X,Y), dom(X); b(X,Y) : r(X,Y), q(X) }."]),
        ("twice", ["{ b(X,Y); b(Y,X) } :- r(X,Y), dom(X)."]),
        ("twice", ["b(X,Y); b(Y,X) :- r(X,Y), dom(X)."]),
        ("twice", ["b(X,Y) : dom(X); b(Y,X) : q(X) :- r(X,Y)."]),
        ("twice", ["#sum { 1,X,Y : b(X,Y) : r(X,Y), dom(X); 1,X,Y,n : b(X,Y) : r(Y,X), q(X) } 3."]),
        ("twice-same", ["{ b(X,Y) : r(X,Y), dom(X); b(Y,X) : r(Y,X), dom(Y) }."]),
    ]
    uses = [
        ("body", "a(X,Y) :- b(X,Y), dom(X)."),
        ("cond", _cond("b(X,Y), dom(X)")),
        ("sum", "a(S) :- S = #sum { 1,X,Y : b(X,Y), dom(X) }."),
        ("body-otherarg", "a(X,Y) :- b(X,Y), dom(Y)."),
    ]
    for (kn, ks), (un, u) in itertools.product(kinds, uses):
        if un == "body-otherarg" and not (kn == "twice" or ks[0].startswith("b(X,Y) :-")):
            continue
        if un == "sum" and (kn in ("multi-other", "twice-same") or ks[0].startswith("{ b(X,Y) }")):
            continue
        _prog(out, ks + [u], f"head-{kn}")
    # the other predicate of a shared head has a second rule that does not share the element condition
    others = [
        "{ b(X,Y) : dom(X); g(X,Y) : q(Y) } :- r(X,Y).",
        "b(X,Y) : dom(X); g(X,Y) : q(Y) :- r(X,Y).",
        "#count { X,Y : b(X,Y) : r(X,Y), dom(X); X,Y : g(X,Y) : r(X,Y), q(Y) } 2.",
    ]
    for k, extra in itertools.product(others, ["g(X,Y) :- r(Y,X).", "g(X,Y) :- r(Y,X), q(Y)."]):
        _prog(out, [k, extra, "a(X,Y) :- g(X,Y), q(Y)."], "head-multi-second-rule")


# ---------------------------------------------------------------------------------------------------------------
def _argmaps(out):
    """F3: argument positions: definition(s) of b, then (body of the use rule, head variables)"""
    groups = [
        (
            "permuted",
            ["b(X,Y) :- r(Y,X)."],
            [
                ("b(X,Y), r(Y,X)", "X,Y"),
                ("b(X,Y), r(X,Y)", "X,Y"),
                ("b(X,X), r(X,X)", "X"),
                ("b(X,Y), r(Y,_)", "X,Y"),
                ("b(Y,X), r(X,Y)", "X,Y"),
                ("b(X,Y), r(Y,Z)", "X,Y,Z"),
            ],
        ),
        (
            "repeated-body",
            ["b(X) :- r(X,X)."],
            [("b(X), r(X,X)", "X"), ("b(X), r(X,Y)", "X,Y"), ("b(X), r(X,_)", "X"), ("b(X), r(Y,Y), q(Y)", "X,Y")],
        ),
        (
            "repeated-head",
            ["b(X,X) :- dom(X)."],
            [
                ("b(X,Y), dom(X)", "X,Y"),
                ("b(X,Y), dom(Y)", "X,Y"),
                ("b(X,X), dom(X)", "X"),
                ("b(X,_), dom(X)", "X"),
                ("b(_,Y), dom(Y)", "Y"),
            ],
        ),
        (
            "const-int",
            ["b(X,1) :- dom(X), q(1)."],
            [
                ("b(X,Y), q(Y)", "X,Y"),
                ("b(X,Y), q(X)", "X,Y"),
                ("b(X,1), q(1)", "X"),
                ("b(X,Y), q(1)", "X,Y"),
                ("b(X,2), q(2)", "X"),
            ],
        ),
        (
            "const-two-rules",
            ["b(X,1) :- dom(X), q(1).", "b(X,2) :- dom(X), q(2)."],
            [("b(X,Y), q(Y)", "X,Y"), ("b(X,Y), q(1)", "X,Y"), ("b(X,2), q(1)", "X")],
        ),
        (
            "const-body-only",
            ["b(X) :- dom(X), q(1)."],
            [("b(X), q(1)", "X"), ("b(X), q(X)", "X"), ("b(1), q(1)", "")],
        ),
        (
            "const-sym",
            ["b(X,k) :- dom(X), q(k)."],
            [("b(X,Y), q(Y)", "X,Y"), ("b(X,Y), q(X)", "X,Y"), ("b(X,Y), q(k)", "X,Y")],
        ),
        (
            "function-head",
            ["h(f(X)) :- dom(X), q(X).", "b(f(X),Y) :- r(X,Y), h(f(X))."],
            [
                ("b(Z,Y), h(Z)", "Z,Y"),
                ("b(f(X),Y), h(f(Y))", "X,Y"),
                ("b(f(X),Y), h(f(X))", "X,Y"),
                ("b(f(X),Y), r(X,Y)", "X,Y"),
                ("b(f(X),Y), dom(X)", "X,Y"),
            ],
        ),
        (
            "function-use",
            ["h(f(X)) :- dom(X).", "b(Z) :- h(Z), not q(Z)."],
            [("b(f(X)), h(f(X))", "X"), ("b(f(X)), h(f(Y)), r(X,Y)", "X,Y"), ("b(f(X)), dom(X)", "X")],
        ),
        (
            "arity3",
            ["b(X,Y,Z) :- r(X,Y), s(Z,X)."],
            [
                ("b(X,Y,Z), s(Z,X)", "X,Y,Z"),
                ("b(X,Y,Z), s(X,Z)", "X,Y,Z"),
                ("b(X,Y,Z), r(X,Y), s(Z,Y)", "X,Y,Z"),
                ("b(X,Y,X), s(X,X)", "X,Y"),
                ("b(X,Y,_), r(X,_)", "X,Y"),
                ("b(X,Y,Z), r(Y,X)", "X,Y,Z"),
            ],
        ),
        ("arity0-body", ["b(X) :- c, dom(X)."], [("b(X), c", "X"), ("b(X), not c", "X"), ("b(X), c, dom(X)", "X")]),
        (
            "arity0-head",
            ["b :- c, dom(X), q(X)."],
            [("b, c", ""), ("b, dom(X)", "X"), ("b, not not c", "")],
        ),
        (
            "arith",
            ["b(X,Y) :- dom(X), Y = X+1, q(Y)."],
            [
                ("b(X,Y), q(Y)", "X,Y"),
                ("b(X,Y), q(X)", "X,Y"),
                ("b(X,Y), q(X+1)", "X,Y"),
                ("b(X,Y), dom(X), dom(Y)", "X,Y"),
                ("b(X,Y), Z = X+1, q(Z)", "X,Y,Z"),
                ("b(X,X+1), q(X+1)", "X"),
            ],
        ),
    ]
    for gn, ds, uses in groups:
        for i, (body, hv) in enumerate(uses):
            _prog(out, ds + [f"{_head(hv)} :- {body}."], f"args-{gn}")
            if i < 1 and gn in ("permuted", "repeated-head", "const-int", "function-head", "arity3", "arith"):
                _prog(out, ds + [_cond(body, hv.split(",")[0])], f"args-{gn}")


# ---------------------------------------------------------------------------------------------------------------
def _chains(out):
    """F4: chains p1 <- p2 <- p3 (<- p4), a sign at every link; use rules probe p1 against pk with all 3 signs"""

    def build(sv, target):
        stms = []
        for i, s in enumerate(sv):
            stms.append(f"{{ p{i + 1}(X) }} :- dom(X), {SIGNS[s]}p{i + 2}(X).")
        for j, s in enumerate("pnd"):
            stms.append(f"u{j + 1}(X) :- p1(X), {SIGNS[s]}p{target}(X).")
        return stms

    # length 2, direct link p1 -> p2 (always a mapping with the sign of the link)
    for s1 in "pnd":
        _prog(out, build((s1, "p"), 2), "chain-direct")
    # length 2, end of the chain
    for s1, s2 in itertools.product("pnd", repeat=2):
        _prog(out, build((s1, s2), 3), f"chain-{'pos' if s1 == 'p' else 'neg'}link")
    # length 3, end of the chain
    for s1, s2, s3 in itertools.product("pn", "pn", "pnd"):
        ok = s1 == "p" and s2 == "p"
        _prog(out, build((s1, s2, s3), 4), f"chain-{'pos' if ok else 'neg'}link")
    # length 3, middle of the chain
    for s1, s2 in itertools.product("pnd", "pn"):
        _prog(out, build((s1, s2, "p"), 3), f"chain-{'pos' if s1 == 'p' else 'neg'}link")
    # plain (non-choice) links: what is implied is implied by the closure as well
    for sv in [("p", "p"), ("p", "n"), ("n", "p"), ("p", "n", "p")]:
        stms = [f"p{i + 1}(X) :- dom(X), {SIGNS[s]}p{i + 2}(X)." for i, s in enumerate(sv)]
        stms += [f"u{j + 1}(X) :- p1(X), {SIGNS[s]}p{len(sv) + 1}(X)." for j, s in enumerate("pnd")]
        _prog(out, stms, f"chain-plain-{'pos' if set(sv[:-1]) == {'p'} else 'neg'}link")
    # composition of argument maps
    d = ["{ p1(X,Y) } :- p2(Y,X).", "{ p2(X,Y) } :- r(X,Y), dom(Y), not q(X)."]
    for lit in ["r(Y,X)", "r(X,Y)", "dom(X)", "dom(Y)", "not q(Y)", "not q(X)"]:
        _prog(out, d + [f"u(X,Y) :- p1(X,Y), {lit}."], "chain-argmap")
    d = ["{ p1(X) } :- p2(X,X).", "{ p2(X,Y) } :- r(Y,X), dom(Y)."]
    for lit in ["r(X,X)", "dom(X)", "r(X,Y), q(Y)"]:
        _prog(out, d + [f"u(X) :- p1(X), {lit}."], "chain-argmap")


# ---------------------------------------------------------------------------------------------------------------
def _samepred(out):
    """F5: two literals over the same predicate"""
    rhs_args = ["X,Y", "_,Y", "X,_", "Y,X", "X,Z"]
    for args, s in itertools.product(rhs_args, "pnd"):
        guard = "dom(Z), " if (args == "X,Z" and s != "p") else ""
        kind = f"eq-{s}" if args in ("X,Y", "_,Y", "X,_") else "diff"
        _prog(out, [f"a(X,Y) :- p(X,Y), {guard}{SIGNS[s]}p({args})."], f"same-{kind}")
    for args, s in itertools.product(["X,Y", "_,Y", "Y,X"], "pnd"):
        if args != "X,Y" and s == "d":
            continue
        kind = f"eq-{s}" if args != "Y,X" else "diff"
        _prog(out, [_cond(f"p(X,Y), {SIGNS[s]}p({args})")], f"same-{kind}")
        _prog(out, [f"a(S) :- S = #sum {{ 1,X,Y : p(X,Y), {SIGNS[s]}p({args}) }}."], f"same-{kind}")
    # the first literal is not positive
    for l1, l2 in [
        ("not p(X,Y)", "not p(_,Y)"),
        ("not p(X,Y)", "not p(X,Y)"),
        ("not not p(X,Y)", "p(X,Y)"),
        ("not not p(X,Y)", "not p(X,Y)"),
        ("not p(X,Y)", "not not p(X,Y)"),
        ("not not p(X,Y)", "not not p(_,Y)"),
    ]:
        _prog(out, [f"a(X,Y) :- dom(X), dom(Y), {l1}, {l2}."], "same-neglhs")
    # other arity is another predicate
    _prog(out, ["a(X,Y) :- p(X,Y), p(X)."], "same-otherarity")
    _prog(out, ["a(X,Y) :- p(X,Y), not p(X)."], "same-otherarity")
    # defined predicate, several answer sets
    for s in "pnd":
        _prog(out, ["{ p(X,Y) } :- r(X,Y).", f"a(X) :- p(X,Y), {SIGNS[s]}p(_,Y), q(Y)."], f"same-eq-{s}")
        _prog(out, ["{ p(X,Y) } :- r(X,Y).", f":- p(X,Y), {SIGNS[s]}p(X,Y), q(Y)."], f"same-eq-{s}")


# ---------------------------------------------------------------------------------------------------------------
def _signs(out):
    """F6: sign of the dominating literal, sign of the dominated literal vs. sign in the definition"""
    for sd, us in itertools.product("pnd", repeat=2):
        tag = "fire" if sd == us else "miss"
        _prog(
            out,
            [f"{{ b(X) }} :- dom(X), {SIGNS[sd]}q(X).", f"a(X) :- b(X), {SIGNS[us]}q(X)."],
            f"sign-dominated-{tag}",
        )
        _prog(
            out,
            [f"b(X) :- dom(X), t(X), {SIGNS[sd]}q(X).", _cond(f"b(X), {SIGNS[us]}q(X)")],
            f"sign-dominated-{tag}",
        )
    for ls, sd in itertools.product("nd", "pnd"):
        _prog(
            out,
            [f"{{ b(X) }} :- dom(X), {SIGNS[sd]}q(X).", f"a(X) :- {SIGNS[ls]}b(X), dom(X), {SIGNS[sd]}q(X)."],
            "sign-dominating-neg",
        )
        if ls == "d":
            continue
        _prog(
            out,
            [
                f"b(X) :- dom(X), t(X), {SIGNS[sd]}q(X).",
                f"a(S) :- S = #count {{ X : {SIGNS[ls]}b(X), dom(X), {SIGNS[sd]}q(X) }}.",
            ],
            "sign-dominating-neg",
        )


# ---------------------------------------------------------------------------------------------------------------
def _scopes(out):
    """F7: scopes must not leak"""
    d = ["b(X,Y) :- dom(X), r(X,Y)."]
    fixed = [
        ("noleak", "a(X) :- b(X,Y), z(Z), e(Z,Y) : dom(X)."),
        ("noleak", "a :- dom(X) : b(X,Y)."),
        ("noleak", "a :- b(X,Y) : dom(X), s(X,Y)."),
        ("noleak", "a(Z) :- z(Z), e(Z,X) : b(X,Y); e(Z,X) : dom(X)."),
        ("noleak", "a(X,Z) :- z(Z), dom(X), e(Z,Y) : b(X,Y)."),
        ("noleak", "a(X,Z) :- z(Z), dom(X), not e(Z,Y) : b(X,Y)."),
        ("fire", "a(X,Y,V) :- b(X,Y), dom(X), z(V), e(V,Z) : b(X,Z), dom(X)."),
        ("fire", "a(X,Z) :- z(Z), dom(X), not e(Z,Y) : b(X,Y), dom(X)."),
        ("fire", "a(X,Z) :- z(Z), dom(X), e(Z,Y) : b(X,Y), r(X,Y)."),
        ("fire", "a(Z) :- z(Z), e(Z,X) : b(X,Y), dom(X); not e(Z,Y) : b(X,Y), r(X,Y)."),
    ]
    for tag, u in fixed:
        _prog(out, d + [u], f"scope-{tag}")
    # the head of a conditional literal is not in the scope of its condition (dom/1 varies over the answer sets)
    _prog(out, ["{ dom(X) } :- q(X)."] + d + ["a(X) :- q(X), b(X,Y) : dom(X), s(X,Y)."], "scope-noleak")
    for f in ["#sum", "#min", "#max", "#count", "#sum+"]:
        _prog(out, d + [f"a(S) :- S = {f} {{ Y,X : b(X,Y), dom(X) }}."], "scope-fire")
        _prog(out, d + [f"a(X,S) :- dom(X), S = {f} {{ Y : b(X,Y) }}."], "scope-noleak")
    for f in ["#sum", "#max"]:
        _prog(out, d + [f"a(S) :- S = {f} {{ Y,X : b(X,Y), dom(X); X,n : dom(X), q(X) }}."], "scope-fire")
        _prog(out, d + [f"a(X,S) :- b(X,_), S = {f} {{ Y : r(X,Y), dom(X) }}."], "scope-noleak")
        _prog(out, d + [f"a(S) :- S = {f} {{ Y,X : b(X,Y); X,n : dom(X) }}."], "scope-noleak")
    for f in ["#min"]:
        _prog(out, d + [f"a :- 1 <= {f} {{ Y,X : b(X,Y), dom(X) }} <= 3."], "scope-fire")
        _prog(out, d + [f"a :- not 2 <= {f} {{ Y,X : b(X,Y), dom(X) }}."], "scope-fire")
        _prog(out, d + [f"a(X) :- dom(X), not 2 <= {f} {{ Y : b(X,Y) }}."], "scope-noleak")
    _prog(out, d + ["a(Z) :- z(Z), 1 { e(Z,X) : b(X,Y), dom(X) }."], "scope-fire")
    _prog(out, d + ["a(X,Z) :- z(Z), dom(X), { e(Z,Y) : b(X,Y) } 0."], "scope-noleak")
    # head aggregate conditions are not cleaned, the body of the same rule is
    _prog(out, d + ["{ a(X,Y) : b(X,Y), dom(X) } :- q(Y)."], "scope-headcond-untouched")
    _prog(out, d + ["{ a(X,Y) : q(Y) } :- b(X,Y), dom(X)."], "scope-fire")
    _prog(out, d + ["a(X,Y); g(X,Y) :- b(X,Y), dom(X)."], "scope-fire")
    _prog(out, d + ["{ sel(Y) } :- q(Y).", ":- b(X,Y), dom(X), sel(Y)."], "scope-fire")
    _prog(out, d + ["{ sel(Y) } :- q(Y).", "#minimize { 1@0,X,Y : b(X,Y), dom(X), sel(Y) }."], "scope-fire")
    _prog(out, d + ["{ sel(Y) } :- q(Y).", ":~ sel(Y), e(Y,X) : b(X,Y), dom(X). [1@0,Y]"], "scope-fire")


# ---------------------------------------------------------------------------------------------------------------
def _inputs(out):
    """F8: the dominating predicate is (also) declared as input"""

    def scopes(hv, lits):
        return [
            f"a({hv}) :- {lits}.",
            _cond(lits),
            f"a(S) :- S = #max {{ X : {lits} }}.",
        ]

    for d in ("b(X,Y) :- dom(X), r(X,Y).", "{ b(X,Y) } :- dom(X), r(X,Y)."):
        for inn in ([], [("b", 2)]):
            if not inn and d.startswith("b("):
                continue  # same as isect "one"
            for u in scopes("X,Y", "b(X,Y), dom(X)"):
                _prog(out, [d, u], f"input-{'declared' if inn else 'closed'}", inn)
    chain = ["b(X) :- c(X), q(X).", "c(X) :- dom(X), s(X)."]
    for inn, nm in (([], "closed"), ([("c", 1)], "declared-mid"), ([("b", 1)], "declared")):
        for tgt in ("dom", "c"):
            for u in scopes("X", f"b(X), {tgt}(X)")[: 2 if nm == "declared" else 3]:
                _prog(out, chain + [u], f"input-chain-{nm}", inn)
    # the dominated predicate is declared input and also defined: still implied
    for u in scopes("X,Y", "b(X,Y), dom(X)"):
        _prog(out, ["dom(X) :- s(X).", "b(X,Y) :- dom(X), r(X,Y).", u], "input-dominated-declared", [("dom", 1)])
    # one of two predicates of a choice head is declared
    for inn, nm in (([], "closed"), ([("g", 2)], "declared")):
        _prog(
            out,
            ["{ b(X,Y); g(X,Y) } :- dom(X), r(X,Y).", "a(X,Y) :- b(X,Y), dom(X).", "c(X,Y) :- g(X,Y), dom(X)."],
            f"input-{nm}",
            inn,
        )


# ---------------------------------------------------------------------------------------------------------------
def _booleans(out):
    """F9: #true / #false"""
    plain = ["#true", "#false", "not not #true", "not not #false"]
    negs = ["not #true", "not #false"]
    sel = "{ sel(X) } :- dom(X)."
    shapes = [
        ("body", True, ["a(X) :- dom(X), {B}."]),
        ("only", False, ["a :- {B}.", "c(X) :- dom(X), not a."]),
        ("constraint", False, [sel, ":- sel(X), q(X), {B}."]),
        ("choice", False, ["{ a(X) } :- dom(X), {B}."]),
        ("weak", None, [sel, ":~ sel(X), {B}. [1@0,X]"]),
        ("minimize", None, [sel, "#minimize { 1@0,X : sel(X), {B}; 2@0,X : sel(X), q(X) }."]),
        ("cond", True, ["a :- q(X) : dom(X), {B}."]),
        ("condhead", False, ["a :- {B} : dom(X)."]),
        ("cond-only", False, ["a(X) :- dom(X), not q(X) : {B}."]),
        ("sum", False, ["a(S) :- S = #sum { X : dom(X), {B}; 5 : {B} }."]),
        ("min", None, ["a(S) :- S = #min { X : dom(X), q(X); 0 : {B}, dom(X) }."]),
    ]
    for _, withneg, stms in shapes:
        for b in plain[:2] if withneg is None else plain + (negs if withneg else []):
            val = "true" if b.count("not ") % 2 == (0 if "#true" in b else 1) else "false"
            _prog(out, [s.replace("{B}", b) for s in stms], f"bool-{val}")
    _prog(out, ["#false :- dom(X), q(X).", "a(X) :- dom(X)."], "bool-head")
    _prog(out, ["#true :- dom(X), q(X).", "a(X) :- dom(X)."], "bool-head")
    _prog(out, ["{ a(X) : #true; c(X) : #false } :- dom(X)."], "bool-head")
    _prog(out, ["a(X) :- dom(X), #true, #false."], "bool-false")
    _prog(out, ["a(X) :- dom(X), #true, not q(X) : #true."], "bool-true")
    _prog(out, ["a(X) :- dom(X), not q(X) : #true, #false."], "bool-false")
    _prog(out, ["b(X) :- dom(X), q(X), #true.", "a(X) :- b(X), q(X), not #false."], "bool-true")


# ---------------------------------------------------------------------------------------------------------------
def _recursion(out):
    """F12: recursion through the dominating predicate"""
    progs = [
        ("fire", ["seq(T,0) :- task(T).", "foo(T,S) :- seq(T,S).", "seq(T,S+1) :- task(T), foo(T,S), S < 2."]),
        ("miss", ["seq(T,0) :- start(T).", "foo(T,S) :- seq(T,S).", "seq(T,S+1) :- task(T), foo(T,S), S < 2."]),
        ("fire", ["t(X) :- b(X), dom(X).", "b(X) :- t(X), dom(X).", "t(X) :- e(X), dom(X)."]),
        ("fire", ["t(X) :- b(X), dom(X).", "b(X) :- t(X), dom(X).", "t(X) :- e(X)."]),
        ("fire", ["{ t(X) } :- not not t(X), dom(X).", "z(X) :- t(X), dom(X), not not t(X)."]),
        ("fire", ["t(X) :- dom(X), not b(X).", "b(X) :- dom(X), not t(X).", "z(X) :- t(X), dom(X), not b(X)."]),
        ("miss", ["t(X) :- dom(X), not b(X).", "b(X) :- dom(X), not t(X).", "z(X) :- t(X), not not b(X)."]),
        ("fire", ["t(X) :- dom(X), not b(X).", "b(X) :- dom(X), not t(X).", "z(X) :- b(X), not b(X), t(X)."]),
        ("fire", ["t(X) :- b(X), q(X).", "b(X) :- t(X).", "b(X) :- dom(X), q(X).", "z(X) :- t(X), q(X)."]),
        ("miss", ["t(X) :- b(X), q(X).", "b(X) :- t(X).", "b(X) :- dom(X).", "z(X) :- b(X), q(X)."]),
    ]
    for tag, stms in progs:
        _prog(out, stms, f"recursion-{tag}")


def programs():
    out = []
    _isect(out)
    _heads(out)
    _argmaps(out)
    _chains(out)
    _samepred(out)
    _signs(out)
    _scopes(out)
    _inputs(out)
    _booleans(out)
    _recursion(out)
    return out
