"""Grid for ngo with ALL traits off: preprocess (normalize), the exline_arithmetic loop step, postprocess
(inline_arithmetic).  Side conditions spanned, firing side and near miss:
* replace_old_aggregates: old-style body `{..}` with positive / `not` / `not not` / comparison / #true,#false element
  literals (the three branches of _convert_old_agg), with and without conditions, `_` in positive (fresh AUX) vs negated
  (anon__ngo) vs doubly negated elements, intervals in element literal / condition (_exline_interval), pools, repeated
  tuples, every guard shape (left, right, both, all six operators, none, assignment) and the three literal signs;
  near miss: old-style / #count aggregates in heads, which are not converted.
* _convert_count_to_sum: #count with repeated tuples, empty tuples, non-integer tuples, in rule and weak-constraint bodies.
* remove_unecessary_bounds: the four vacuous #inf/#sup guards (dropped) against every #inf/#sup guard that is NOT vacuous
  (`#sup <= agg`, `agg < #sup`, `#inf < agg`, `agg <= #inf`, `=`, `!=` ...) for #sum, #sum+, #count, #min, #max (where
  #inf/#sup are real values of the empty aggregate or of a tuple) and old-style; right guard moved to the left.
* expand_comparisons: chains of length 2-4 under positive / not / not not sign in rule bodies, conditions of conditional
  literals, conditions of body aggregate elements, old-style element literals, weak-constraint bodies; near miss: the
  literal of a conditional literal and head-aggregate conditions (not split).
* unpool: pools in heads, bodies, under negation, in conditions, aggregate tuples and conditions, old-style elements,
  comparisons, weak constraints, #show.
* exline_arithmetic / inline_rule: + - * / \\ ** unary minus and absolute value as direct arguments of head atoms, positive
  (binding and non-binding), negated, doubly negated body atoms, conditions of conditional literals, weak-constraint
  weight / priority / tuple; near miss: nested in a function term, inside aggregate elements, choice / disjunctive heads,
  classically negated atoms.
* _equality / inline_rule / inline_aggregate / inline_conditional: `X = t` with X occurring in t (no occurs check),
  `X = Y` between globals also used in an aggregate, `_ = t`, `X = _`, `X = f(_)`, `not X != t` against `not X = t`,
  `X != t`, `not not X = t`; variable occurring once (kept) vs twice (inlined); t mentioning an aggregate-assigned variable;
  equality whose variable is the aggregate's assigned guard; intervals / pools on the right (skipped); equalities inside
  aggregate element conditions and conditional literals with local (inlined) vs global (kept) variable on either side.
"""
import itertools

CH = "{ s(X) } :- d(X)."
SIGNS = ["", "not ", "not not "]


def _head(k, guards, body):
    """rotate the rule shape: the harness also adds facts over head predicates (a 0-ary head is often given as a
    fact, which hides a wrongly derived `a`), so use a constraint or a head with an argument as well"""
    if "N" in guards:
        return f"cnt(N) :- {body}."
    if "W" in body:
        k = k % 2
    return [f"a :- {body}.", f":- {body}.", f"a(W) :- e(W); {body}."][k % 3]


def _old_style(add):
    elems = [
        ("pos", "s(X)", ""),
        ("pos-cond", "s(X) : d(X)", ""),
        ("neg-cond", "not s(X) : d(X)", ""),
        ("dneg-cond", "not not s(X) : d(X)", ""),
        ("neg-ground", "not s(1); s(2)", ""),
        ("cmp", "X < 2 : s(X)", ""),
        ("cmp-2vars", "X != Y : s(X), s(Y)", ""),
        ("cmp-neg", "not X < 2 : s(X)", ""),
        ("cmp-dneg", "not not X < 2 : s(X)", ""),
        ("cmp-const", "1 < 2 : s(X)", ""),
        ("cmp-two", "X < 2 : s(X); X > 0 : s(X)", ""),
        ("bool-true", "#true : s(X)", ""),
        ("bool-false", "#false : s(X)", ""),
        ("bool-two-true", "#true : s(X); #true : e(X)", ""),
        ("bool-true-false", "#true : s(X); #false : e(X); not #true : d(X)", ""),
        ("bool-true-cmp", "#true : s(X); 1 < 2 : e(X)", ""),
        ("anon-pos", "r(X,_)", ""),
        ("anon-pos-cond", "r(X,_) : d(X)", ""),
        ("anon-neg", "not r(X,_) : d(X)", ""),
        ("anon-dneg", "not not r(X,_) : d(X)", ""),
        ("anon-in-cond", "s(X) : r(X,_)", ""),
        ("anon-twice", "r(_,_)", ""),
        ("anon-neg-cond", "s(X) : d(X), not r(X,_)", ""),
        ("interval", "s(1..2)", ""),
        ("interval-neg", "not s(1..2)", ""),
        ("interval-neg-cond", "not r(X,1..2) : d(X)", ""),
        ("interval-cond", "s(X) : X = 1..3", ""),
        ("interval-cond-atom", "s(X) : r(X,1..2)", ""),
        ("interval-global", "s(L..U)", "; r(L,U)"),
        ("interval-cmp", "Y < (1..3) : s(Y)", ""),
        ("pool", "s(1;2)", ""),
        ("pool-neg", "not s(1;2)", ""),
        ("pool-cond", "s(X) : d(X;X+1)", ""),
        ("same-tuple", "s(X) : d(X); s(X) : e(X)", ""),
        ("pos-and-neg", "s(X); not s(X) : d(X)", ""),
        ("arith", "s(X+1) : d(X)", ""),
        ("global", "r(X,Y)", "; e(X)"),
        ("aux-name", "r(AUX,_) : e(AUX0)", "; e(AUX)"),
    ]
    guards = [
        ("1 ", ""),
        ("", " 1"),
        ("1 ", " 2"),
        ("N = ", ""),
        ("", " = N"),
        ("", " = 1"),
        ("", " != 1"),
        ("1 < ", ""),
        ("", " > 1"),
        ("", " >= 2"),
        ("", " < 2"),
        ("1 != ", ""),
        ("2 > ", ""),
        ("2 >= ", ""),
        ("0 < ", " < 3"),
        ("1 <= ", " != 2"),
        ("", ""),
    ]

    def rule(elem, extra, lg, rg, sign, k):
        return _head(k, lg + rg, f"{sign}{lg}{{ {elem} }}{rg}{extra}")

    for i, (name, elem, extra) in enumerate(elems):
        # every element shape once with the most sensitive guard (assignment) and once with a rotating guard / sign
        picks = guards if name == "pos-cond" else [guards[3], guards[(5 * i + 4) % len(guards)]]
        for k, (lg, rg) in enumerate(picks):
            sign = SIGNS[(i + k) % 3]
            if "N" in lg + rg:
                sign = ""
            add(f"old-{name}", [CH, rule(elem, extra, lg, rg, sign, i + k)])
    # near miss: old-style and #count aggregates in the head stay as they are
    add("old-head-nearmiss", ["1 { s(X) : d(X) } 2.", "a :- 2 { s(X) }."])
    add("old-head-nearmiss", ["{ s(X) : d(X); t(X) : not e(X), d(X) } = 1."])
    add("old-head-nearmiss", ["1 <= #count { X : s(X) : d(X) } <= 2."])
    # classically negated element atoms
    add("old-classical", [CH, "-s(X) :- e(X); not s(X).", "cnt(N) :- N = { -s(X) : d(X); not -s(X) : e(X) }."])
    add("old-classical", [CH, "-s(X) :- e(X); not s(X).", ":- not 1 { -s(X); s(X) : e(X) } 2."])
    # two old-style aggregates in one body share the AUX name space
    add("old-two-aggs", [CH, "a :- 1 { r(X,_) }; { r(_,Y) : d(Y) } 2; e(X)."])
    add("old-two-aggs", [CH, "a(X) :- d(X); 1 { s(X); s(X+1) } 1; not { s(1..X) } 0."])


def _count(add):
    elems = [
        "X : s(X)",
        "1,X : s(X); 1,X : e(X)",
        "X : s(X); X : e(X)",
        "X,Y : r(X,Y)",
        "X : r(X,Y)",
        ": s(X)",
        "a : s(X); b : e(X)",
        "X : s(X); X : not s(X), d(X)",
        "X+1 : s(X); X : e(X)",
        "0,X : s(X); 1,X : e(X)",
    ]
    guards = [("N = ", ""), ("", " >= 1"), ("", " < 2"), ("1 <= ", " <= 2"), ("", " != 1"), ("2 > ", ""), ("", " = N")]
    for i, elem in enumerate(elems):
        for k in range(2):
            lg, rg = guards[(2 * i + k) % len(guards)]
            sign = "" if "N" in lg + rg else SIGNS[(i + k) % 3]
            add("count-to-sum", [CH, _head(i + k + 1, lg + rg, f"{sign}{lg}#count {{ {elem} }}{rg}")])
    add("count-minimize", [CH, ":~ #count { X : s(X) } >= 2. [1@0]"])
    add("count-minimize", [CH, ":~ N = #count { X : s(X); X : e(X) }. [N@1]"])
    add("count-minimize", [CH, ":~ d(Y); not #count { X : s(X), X < Y } < 1. [Y@0,Y]"])


def _infsup(add):
    aggs = {
        "sum": "#sum { X : s(X) }",
        "min": "#min { X : s(X) }",
        "max": "#max { X : s(X) }",
        "sump": "#sum+ { X : s(X) }",
        "count": "#count { X : s(X) }",
        "old": "{ s(X) : d(X) }",
        "minv": "#min { X : s(X); #inf : e(X) }",
        "maxv": "#max { X : s(X); #sup : e(X) }",
    }
    vac = [
        ("#inf <= ", ""),
        ("", " <= #sup"),
        ("#sup >= ", ""),
        ("", " >= #inf"),
        ("#inf <= ", " <= #sup"),
        ("#inf <= ", " <= 2"),
        ("1 <= ", " <= #sup"),
        ("#sup >= ", " >= #inf"),
    ]
    real = [
        ("#sup <= ", ""),
        ("", " < #sup"),
        ("#inf < ", ""),
        ("", " <= #inf"),
        ("#inf = ", ""),
        ("", " != #sup"),
        ("#inf >= ", ""),
        ("", " >= #sup"),
        ("#sup > ", ""),
        ("#inf != ", ""),
        ("", " = #sup"),
        ("#inf < ", " < #sup"),
        ("#sup <= ", " <= #sup"),
        ("#inf <= ", " < #sup"),
    ]
    n = 0
    for fi, (fname, agg) in enumerate(aggs.items()):
        full = fname in ("sum", "min", "max", "minv", "maxv")
        for kind, gl in (("vacuous", vac), ("real", real)):
            for gi, (lg, rg) in enumerate(gl):
                if fname == "sum" and kind == "real" and gi % 2:
                    continue
                if fname in ("min", "max") and kind == "vacuous" and (gi + fi) % 2:
                    continue
                if fname in ("minv", "maxv") and (kind == "vacuous" or gi >= 8 or gi % 2):
                    continue
                if not full and (gi + fi) % 4 != 0:
                    continue
                sign = SIGNS[n % 3] if n % 4 == 3 else ""
                n += 1
                head = "a(W) :- e(W); " if n % 2 else "a :- "
                add(f"infsup-{kind}-{fname}", [CH, f"{head}{sign}{lg}{agg}{rg}."])
    # value assigned from an aggregate that can be #inf / #sup, then compared
    add("infsup-real-assign", [CH, "a(V) :- V = #max { X : s(X) }; #inf < V."])
    add("infsup-real-assign", [CH, "a(V) :- V = #min { X : s(X) }; V < #sup."])
    add("infsup-vacuous-minimize", [CH, ":~ #inf <= #sum { X : s(X) } <= #sup. [1@0]"])
    add("infsup-real-minimize", [CH, ":~ #sup <= #min { X : s(X) }. [1@0]"])


def _chains(add):
    chains = [
        ("1 < X < 4", "X"),
        ("X < Y <= 3", "XY"),
        ("X = Y != 2", "XY"),
        ("0 < X < Y < 5", "XY"),
        ("X <= Y <= Z > 1", "XYZ"),
        ("1 != X != Y != 3", "XY"),
        ("0 <= X < Y != Z < 9", "XYZ"),
        ("0 < X <= Y < Z <= 7", "XYZ"),
    ]

    def dom(vs):
        return "; ".join(f"d({v})" for v in vs)

    def tup(vs):
        return ",".join(vs)

    places = {
        "body": lambda c, vs, sg: [f"a({tup(vs)}) :- {dom(vs)}; {sg}{c}."],
        "cond": lambda c, vs, sg: [CH, f":- not s(X) : {dom(vs).replace(';', ',')}, {sg}{c}."],
        "agg": lambda c, vs, sg: [f"cnt(N) :- N = #sum {{ 1,{tup(vs)} : {dom(vs).replace(';', ',')}, {sg}{c} }}."],
        "old": lambda c, vs, sg: [f"cnt(N) :- N = {{ {sg}{c} : {dom(vs).replace(';', ',')} }}."],
        "min": lambda c, vs, sg: [CH, f":~ {dom(vs)}; s(X); {sg}{c}. [1@0,{tup(vs)}]"],
    }
    for ci, (c, vs) in enumerate(chains):
        length = len(c.split()) // 2
        for pi, (pname, fn) in enumerate(places.items()):
            sgs = range(3) if pname == "body" and ci % 2 == 0 else [(ci + pi) % 3]
            for si in sgs:
                sname = ["pos", "not", "notnot"][si]
                add(f"chain-{pname}-{sname}-len{length}", fn(c, vs, SIGNS[si]))
        # near miss: the literal of a conditional literal and a head aggregate condition are not split
        sg = SIGNS[ci % 3]
        if ci % 2 == 1:
            add("chain-condhead-nearmiss", [CH, f"a :- {sg}{c} : {dom(vs).replace(';', ',')}, s(X)."])
        if ci % 3 == 0:
            add("chain-headagg-nearmiss", [f"{{ t({tup(vs)}) : {dom(vs).replace(';', ',')}, {sg}{c} }}."])
    # a pool / interval as the middle term of a chain is duplicated by the split (the split runs before unpooling);
    # near miss: at either end it is not duplicated
    tmpls = {
        "body": "a(X,Y) :- d(X); d(Y); {S}X < {M} < Y.",
        "agg": "cnt(N) :- N = #sum {{ 1,X,Y : d(X), d(Y), {S}X < {M} < Y }}.",
        "cond": ":- not s(X) : d(X), d(Y), {S}X < {M} < Y.",
        "old": "cnt(N) :- N = {{ {S}X < {M} < Y : d(X), d(Y) }}.",
        "min": ":~ d(X); d(Y); {S}X < {M} < Y. [1@0,X,Y]",
    }
    for (mi, (mname, mid)), (ti, (tname, tmpl)) in itertools.product(
        enumerate([("pool", "(1;5)"), ("interval", "(1..3)"), ("pool-arith", "(X+1;Y-2)")]), enumerate(tmpls.items())
    ):
        if mname == "pool-arith" and tname not in ("body", "agg"):
            continue
        sg = "not not " if (mi + ti) % 3 == 2 else ""
        lines = [tmpl.format(S=sg, M=mid)]
        if "s(X)" in lines[0]:
            lines.insert(0, CH)
        add(f"chain-{mname}-middle-{tname}", lines)
    add("chain-pool-end-nearmiss", ["a(X) :- d(X); 0 < X < (2;4)."])
    add("chain-pool-end-nearmiss", ["a(X) :- d(X); (1;3) < X < 5."])
    add("chain-interval-end-nearmiss", ["a(X) :- d(X); (1..2) < X < 5."])
    add("chain-interval-end-nearmiss", ["a(X,Y) :- d(X); d(Y); 0 < X < Y < (2..4)."])
    add("chain-binding", ["a(Y) :- d(X); Y = X+1 < 4."])
    add("chain-binding", ["a(Y,Z) :- d(X); Y = X+1 = Z."])
    add("chain-binding", ["a(Y) :- d(X); 0 < Y = X*2 < 9."])
    add("chain-binding", ["a(X) :- d(X); not X != X+0 != 3."])
    add("chain-binding", ["a(X,Y) :- d(X); e(Z); X < Y = Z < 4."])


def _pools(add):
    pools = [("const", "(1;2)", ""), ("var", "(X;X+1)", ""), ("two", "(X;Y)", "; e(Y)")]
    places = {
        "head": "h({P}) :- d(X){E}.",
        "head-2nd": "h(X,{P}) :- d(X){E}.",
        "body": "a(X) :- d(X); r(X,{P}){E}.",
        "body-neg": "a(X) :- d(X); not s({P}){E}.",
        "body-dneg": "a(X) :- d(X); not not s({P}){E}.",
        "cond": "a :- e(X){E}; s(Z) : d(Z), r(Z,{P}).",
        "condhead": "a :- e(X){E}; s({P}) : d(X).",
        "aggtuple": "cnt(N) :- d(X){E}; N = #sum {{ {P},Z : s(Z) }}.",
        "aggcond": "cnt(N) :- d(X){E}; N = #sum {{ Z : s(Z), r(Z,{P}) }}.",
        "oldelem": "cnt(N) :- d(X){E}; N = {{ s({P}) }}.",
        "oldcond": "cnt(N) :- d(X){E}; N = {{ s(Z) : r(Z,{P}) }}.",
        "choice": "{{ t({P}) }} :- d(X){E}.",
        "cmp": "a(Z) :- d(X){E}; Z = {P}; s(Z).",
        "cmp-neg": "a(Z) :- d(X){E}; d(Z); not Z = {P}.",
        "min-tuple": ":~ s(X); d(X){E}. [1@0,{P}]",
        "min-weight": ":~ s(X); d(X){E}. [{P}@0,X]",
        "min-body": ":~ d(X){E}; not s({P}). [1@0,X]",
        "show": "#show t({P}) : d(X){E}.",
    }
    for (pname, pool, extra), (plname, tmpl) in itertools.product(pools, places.items()):
        if pname == "two" and plname not in ("head", "body", "body-neg", "aggtuple", "oldelem", "choice", "cmp", "show"):
            continue
        add(f"pool-{plname}", [CH, tmpl.format(P=pool, E=extra)])
    add("pool-arith", ["h(X+1;X-1) :- d(X)."])
    add("pool-arith", [CH, "a(X) :- d(X); s(X+1;X-1)."])
    add("pool-arith", [CH, "a(X) :- d(X); not s(2*X;-X)."])
    add("pool-show", [CH, "#show s(1;2)."])
    add("pool-nested", ["h(f(X;Y),(1;2)) :- r(X,Y)."])
    add("pool-chain", ["a(X) :- d(X); 0 < X < (3;5)."])


def _arith(add):
    terms = ["X+1", "2*X", "X-1", "-X", "|X|", "X*Y", "X/2", "X**2", "(X+1)*2", "f(X+1)", "1+1"]
    places = {
        "head": "p({T}) :- d(X){E}.",
        "head-2args": "p({T},X-1) :- d(X){E}.",
        "body-pos": "a(X) :- d(X){E}; p({T}).",
        "body-bind": "a(X) :- p({T}){E}.",
        "body-neg": "a(X) :- d(X){E}; not p({T}).",
        "body-dneg": "a(X) :- d(X){E}; not not p({T}).",
        "cond": "a :- e(Z); s(X) : d(X){C}, p({T}).",
        "cond-neg": "a :- e(Z); s(X) : d(X){C}, not p({T}).",
        "min-weight": ":~ s(X); d(X){E}. [{T}@0,X]",
        "min-prio": ":~ s(X); d(X){E}. [1@{T},X]",
        "min-tuple": ":~ s(X); d(X){E}. [1@0,{T}]",
        "min-body": ":~ d(X){E}; not p({T}). [1@0,X]",
        # near misses: not ex-lined
        "condhead-nearmiss": "a :- e(Z); p({T}) : d(X){C}.",
        "agg-nearmiss": "cnt(N) :- N = #sum {{ X : d(X){C}, p({T}) }}.",
        "choice-nearmiss": "{{ p({T}) }} :- d(X){E}.",
        "disj-nearmiss": "p({T}) ; q(X) :- d(X){E}.",
        "classical-nearmiss": "a(X) :- d(X){E}; -p({T}).",
    }
    full = ("head", "body-neg")
    invertible = ("X+1", "2*X", "X-1", "-X")
    for (ti, t), (pi, (pname, tmpl)) in itertools.product(enumerate(terms), enumerate(places.items())):
        if pname == "body-bind":
            if t not in invertible:
                continue
        elif pname == "body-pos":
            if ti % 2:
                continue
        elif pname not in full and (ti + pi) % 4 != 0:
            continue
        extra = "; e(Y)" if "Y" in t else ""
        cextra = ", e(Y)" if "Y" in t else ""
        lines = [tmpl.format(T=t, E=extra, C=cextra)]
        if "s(X)" in lines[0]:
            lines.insert(0, CH)
        if pname == "classical-nearmiss":
            lines.insert(0, "-p(X) :- e(X), not p(X).")
        kind = "nested" if t == "f(X+1)" else ("const" if t == "1+1" else "term")
        add(f"arith-{pname}" + ("" if kind == "term" else f"-{kind}"), lines)
    # several arithmetic arguments, user variables named like the auxiliary ones
    add("arith-multi", ["q(2*X,Y-1) :- r(X,Y)."])
    add("arith-multi", ["a(X,Y) :- d(X); d(Y); r(2*X,Y-1)."])
    add("arith-multi", ["a(X+Y) :- r(X,Y); not r(Y-1,X+1)."])
    add("arith-aux-name", ["p(AUX+1,AUX0) :- r(AUX,AUX0); not p(AUX0-1,AUX)."])
    add("arith-aux-name", [CH, "a(AUX) :- d(AUX); s(AUX+1); 1 { r(AUX,_) }."])
    add("arith-interval", ["p(X+(1..2)) :- d(X)."])
    add("arith-interval", ["a(X) :- d(X); not p(X+(1..2))."])
    add("arith-interval", ["a(X) :- d(X); p(X-(0..1),2*X)."])
    add("arith-fact", ["p(1+1).", "p(2*3,f(1+1)).", "a(X) :- d(X); p(X); not p(X,f(2))."])
    add("arith-recursive", ["p(X+1) :- p(X); X < 4.", "p(0) :- d(0)."])
    add("arith-recursive", ["n(X-1) :- n(X); d(X-1).", "n(X) :- e(X)."])


def _inline(add):
    # --- occurs check -----------------------------------------------------------------
    occurs = ["X = X+1", "X = X*3", "X = f(X)", "X = -X", "X = |X|", "X = X+0", "X+1 = X", "not X != X+1", "X = X"]
    ctx = {
        "rule": "a(X) :- p(X); {E}.",
        "agg": "cnt(N) :- N = #sum {{ X : p(X), {E} }}.",
        "cond": "a :- s(X) : p(X), {E}.",
        "min": ":~ p(X); {E}. [1@0,X]",
        "agg-global": "a(X) :- p(X); 1 <= #sum {{ 1,Y : r(X,Y), {E} }}.",
    }
    for (oi, o), (ci, (cname, tmpl)) in itertools.product(enumerate(occurs), enumerate(ctx.items())):
        if cname != "rule" and (oi + ci) % 2 != 0:
            continue
        lines = [tmpl.format(E=o)]
        if "s(X)" in lines[0]:
            lines.insert(0, CH)
        add(f"inline-occurs-{cname}", lines)
    # --- forms of the equality literal: which ones count as an assignment ---------------------
    forms = [
        ("eq", "X = Y+1"),
        ("eq-rev", "Y+1 = X"),
        ("noteq", "not X != Y+1"),
        ("noteq-rev", "not Y+1 != X"),
        ("neq-nearmiss", "X != Y+1"),
        ("not-eq-nearmiss", "not X = Y+1"),
        ("notnot-eq-nearmiss", "not not X = Y+1"),
        ("notnot-neq-nearmiss", "not not X != Y+1"),
        ("less-nearmiss", "X <= Y+1"),
        ("var-var", "X = Y"),
        ("var-var-noteq", "not X != Y"),
        ("const", "X = 2"),
        ("const-rev", "2 = X"),
        ("sym", "X = c"),
        ("func", "X = f(Y)"),
        ("tuple-nearmiss", "(X,Y) = (2,1)"),
        ("interval-nearmiss", "X = 1..Y"),
        ("pool-nearmiss", "X = (Y;Y+1)"),
    ]
    for i, (name, f) in enumerate(forms):
        add(f"inline-form-{name}", [f"a(X,Y) :- p(X); q(Y); {f}."])
        if i % 3 == 0:
            add(f"inline-form-{name}", [CH, f":- p(X); q(Y); {f}; not s(X)."])
    # --- anonymous variables ------------------------------------------------------------------
    anon = ["_ = X+1", "X+1 = _", "X = _", "_ = X", "not X != _", "X = f(_)", "X = (_,1)", "not _ != X"]
    for i, f in enumerate(anon):
        add("inline-anon-rule", [f"a(X) :- p(X); {f}."])
        if i % 2 == 0:
            add("inline-anon-agg", [f"cnt(N) :- N = #sum {{ X : p(X), {f} }}."])
        else:
            add("inline-anon-cond", [CH, f"a :- s(X) : p(X), {f}."])
    # --- variable occurring once vs more often --------------------------------------------------
    add("inline-once-nearmiss", ["a :- q(Y); X = Y+1."])
    add("inline-once-nearmiss", ["a(Y) :- q(Y); X = Y*Y."])
    add("inline-once-nearmiss", ["a(Y) :- q(Y); X = f(Y)."])
    add("inline-head-only", ["a(X) :- q(Y); X = Y+1."])
    add("inline-head-only", ["a(X,Z) :- q(Y); X = Y+1; Z = X*2."])
    add("inline-head-only", ["a(X) :- q(Y); p(Z); X = Y*Z."])
    add("inline-bind-by-inversion", ["a(Y) :- p(X); X = Y+1."])
    add("inline-bind-by-inversion", ["a(Y) :- p(X); X = 2*Y."])
    add("inline-bind-by-inversion", ["a(Y) :- p(X); X = -Y."])
    add("inline-bind-by-inversion", ["a(Y,Z) :- p(X); X = f(Y,Z)."])
    add("inline-twice", ["a(X) :- p(X); X = 1; X = 2."])
    add("inline-twice", ["a(X) :- p(X); q(Y); X = Y; Y = X."])
    add("inline-twice", ["a(X) :- q(Z); X = Y+1; Y = Z*2; p(X)."])
    add("inline-twice", ["a(X,Y) :- p(X); q(Y); X = Y+1; X = Y+1."])
    add("inline-twice", ["a(X,Y) :- p(X); q(Y); X = Y+1; Y = X-1."])
    # --- X = Y between two globals also used inside an aggregate ------------------------------------
    for f in ("X = Y", "Y = X", "not X != Y"):
        add("inline-globals-in-agg", [f"a(X) :- p(X); q(Y); {f}; 1 <= #sum {{ X,Y : r(X,Y) }}."])
        add("inline-globals-in-agg", [f"a(X,N) :- p(X); q(Y); {f}; N = #count {{ Z : r(X,Z), Z != Y }}."])
    # --- t mentions a variable assigned by an aggregate that itself mentions X --------------------------
    for agg in ("#sum { Z : r(Z,X) }", "#max { Z : r(Z,X) }", "{ r(Z,X) }"):
        add("inline-agg-assigned-cycle", [f"a(X) :- p(X); Y = {agg}; X = Y+1."])
        add("inline-agg-assigned-cycle", [f"a(X) :- p(X); Y = {agg}; X = Y."])
    # --- the equality's variable is the aggregate's assigned guard ------------------------------------
    for f in ("X = Y+1", "Y = X", "X = Y", "Y+1 = X", "X = 2*Y", "X = Y*Y"):
        add("inline-into-guard", [CH, f"a(Y) :- X = #sum {{ Z : s(Z) }}; {f}" + ("; q(Y)." if "*" in f else ".")])
    add("inline-into-guard", [CH, "a(Y) :- q(Y); X = Y+1; X < #sum { Z : s(Z) }."])
    add("inline-into-guard", [CH, "a(Y) :- q(Y); X = Y+1; not X = #count { Z : s(Z) }."])
    add("inline-into-guard", [CH, "a(Y) :- q(Y); X = Y+1; X { s(Z) } X+1."])
    # --- equalities inside aggregate element conditions: local vs global ------------------------------------
    aggcases = [
        ("local", "cnt(N) :- N = {F} {{ Y : s(Z), Y = Z+1 }}."),
        ("local-rev", "cnt(N) :- N = {F} {{ Y : s(Z), Z+1 = Y }}."),
        ("local-once", "cnt(N) :- N = {F} {{ Z : s(Z), Y = Z+1 }}."),
        ("local-const", "cnt(N) :- N = {F} {{ Y : s(Y), 3 = Y }}."),
        ("local-noteq", "cnt(N) :- N = {F} {{ Y : s(Y), not Y != 2 }}."),
        ("local-two", "cnt(N) :- N = {F} {{ Y,W : s(Z), Y = Z+1, W = Y*2 }}."),
        ("local-varvar", "cnt(N) :- N = {F} {{ Y,Z : s(Z), e(Y), Y = Z }}."),
        ("global-rhs", "cnt(X,N) :- d(X); N = {F} {{ Y : s(Y), Y = X }}."),
        ("global-lhs-nearmiss", "cnt(X,N) :- d(X); N = {F} {{ Y : s(Y), X = Y }}."),
        ("global-lhs-arith-nearmiss", "cnt(X,N) :- d(X); N = {F} {{ Y : s(Y), X = Y+1 }}."),
        ("global-both-nearmiss", "cnt(X,N) :- d(X); e(W); N = {F} {{ Y : s(Y), X = W }}."),
        ("local-from-global", "cnt(X,N) :- d(X); N = {F} {{ Y : s(Z), Y = Z+X }}."),
        ("second-element", "cnt(N) :- N = {F} {{ Y : s(Y); W,1 : e(Z), W = Z*2 }}."),
    ]
    funs = ["#sum", "#count", "#min", "#max", "#sum+"]
    for (ai, (name, tmpl)), (fi, fun) in itertools.product(enumerate(aggcases), enumerate(funs)):
        if fi != 0 and (ai + fi) % 4 != 0:
            continue
        add(f"inline-agg-{name}", [CH, tmpl.format(F=fun)])
    add("inline-agg-old", [CH, "cnt(N) :- N = { s(Y) : e(Z), Y = Z+1 }."])
    add("inline-agg-old", [CH, "cnt(X,N) :- d(X); N = { s(Y) : e(Y), X = Y }."])
    add("inline-agg-old", [CH, "cnt(X,N) :- d(X); N = { s(Y) : Y = X }."])
    add("inline-agg-min", [CH, ":~ 1 <= #sum { Y : s(Z), Y = Z+1 }. [1@0]"])
    # --- conditional literals: local vs global ------------------------------------------------------
    condcases = [
        ("local", "a :- s(Y) : e(Z), Y = Z+1."),
        ("local-once", "a :- s(Z) : e(Z), Y = Z+1."),
        ("local-neg", "a :- not s(Y) : e(Z), Y = Z+1."),
        ("local-cmp", "a :- Y < 3 : e(Z), Y = Z+1."),
        ("local-noteq", "a :- s(Y) : e(Y), not Y != 2."),
        ("local-two", "a :- s(W) : e(Z), Y = Z+1, W = Y*2."),
        ("global-rhs", "a(X) :- d(X); s(Y) : e(Y), Y = X."),
        ("global-lhs-nearmiss", "a(X) :- d(X); s(Y) : e(Y), X = Y."),
        ("global-lhs-arith-nearmiss", "a(X) :- d(X); s(Y) : e(Y), X = Y+1."),
        ("local-from-global", "a(X) :- d(X); s(Y) : e(Z), Y = Z+X."),
        ("empty-cond-after", "a(X) :- d(X); s(Y) : Y = X+1."),
        ("head-nearmiss", "t(Y) : e(Z), Y = Z+1 :- d(Z)."),
    ]
    for name, rule in condcases:
        add(f"inline-cond-{name}", [CH, rule])
    # --- equalities feeding choice / aggregate heads ------------------------------------------------------
    add("inline-into-head", ["{ t(X) } :- q(Y); X = Y+1."])
    add("inline-into-head", ["{ t(Z) : e(Z), Z < X } :- q(Y); X = Y+1."])
    add("inline-into-head", ["1 { h(X,Z) : e(Z) } 1 :- q(Y); X = Y+1."])
    add("inline-into-head", ["t(X) ; u(X) :- q(Y); X = Y*2."])
    add("inline-into-head", ["X <= #sum { Z : t(Z) : e(Z) } :- q(Y); X = Y+1."])
    add("inline-constraint", [CH, ":- s(X); s(Y); X = Y+1."])
    add("inline-constraint", [CH, ":- s(X); not s(Y); d(Y); not X != Y-1."])


def _minimize(add):
    ws = [
        "[X+1@2,X]",
        "[X*2@1,X]",
        "[-X@0,X]",
        "[1@X+1,X]",
        "[1@0,X-1]",
        "[X*X@X\\2,X+1,X-1]",
        "[|X|@1]",
        "[X+1]",
        "[1@0,f(X+1)]",
    ]
    for i, w in enumerate(ws):
        add("min-arith", [CH, f":~ s(X). {w}"])
        if i % 2 == 0:
            add("min-arith-body", [CH, f":~ s(X); not s(X+1). {w}"])
    add("min-statement", [CH, "#minimize { X*2@1,X : s(X) }."])
    add("min-statement", [CH, "#maximize { X+1@X,X : s(X); 1@0 : not s(2) }."])
    add("min-statement", [CH, "#minimize { Y-X@1,X,Y : s(X), s(Y), X < Y < 4 }."])
    add("min-equality", [CH, ":~ s(X); Y = X+1. [Y@0,Y]"])
    add("min-equality", [CH, ":~ s(X); e(Y); X = Y. [X@Y]"])
    add("min-equality", [CH, ":~ s(X); W = X*2; P = X\\2. [W@P,X]"])
    add("min-equality", [CH, ":~ s(X); not X != Y+1; e(Y). [Y@0,X]"])
    add("min-equality", [CH, ":~ s(X); W = #sum { Z : s(Z), Z < X }; V = W+1. [V@0,X]"])
    add("min-old-agg", [CH, ":~ 2 { s(X) : d(X) }. [1@0]"])
    add("min-old-agg", [CH, ":~ d(Y); N = { s(X) : X < Y }. [N+1@0,Y]"])
    add("min-old-agg", [CH, ":~ not { not s(X) : d(X) } 1. [2@1]"])
    add("min-aux-name", [":~ r(AUX,AUX0). [AUX+1@0,AUX0-1]"])
    add("min-aux-name", [CH, ":~ s(AUX); not s(AUX+1); not s(AUX-1). [AUX*2@AUX+1]"])
    add("min-arith-body", [CH, ":~ s(X); d(X+1). [X*2@1]"])
    add("min-arith-body", [CH, ":~ d(Y); s(X) : d(X), e(X+Y). [Y+1@1,Y]"])
    add("min-two-levels", [CH, ":~ s(X). [X+1@1,X]", ":~ s(X); s(Y); X < Y. [Y-X@2,X,Y]"])


def _other_statements(add):
    # near misses: statements other than rules and weak constraints keep chains, old-style aggregates and arithmetic
    add("stmt-nearmiss-external", ["#external s(X) : d(X), 0 < X < 3.", "a(X) :- s(X); not s(X+1)."])
    add("stmt-nearmiss-heuristic", [CH, "#heuristic s(X) : d(X), 1 < X < 3. [X+1@1,true]", "a(X) :- s(X); d(X-1)."])
    add("stmt-nearmiss-project", [CH, "#project s(X) : d(X), not 1 < X < 3.", "a :- 1 { s(X) }."])
    add("stmt-nearmiss-edge", [CH, "#edge (X,Y) : r(X,Y), X < Y < 4, s(X).", "a(X+1) :- s(X)."])
    add("stmt-nearmiss-show", [CH, "#show t(X+1) : d(X), 1 < X < 3.", "a(X) :- s(X); 1 < X < 3."])
    add("stmt-nearmiss-show", [CH, "#show t(N) : N = { s(X) : d(X) }.", "cnt(N) :- N = { s(X) : d(X) }."])
    add("stmt-const", ["#const n = 2.", "a(X+n) :- d(X); X < n < 4."])
    add("stmt-const", ["#const n = 2.", CH, "a :- n { s(X) : X = 1..n+1 }."])


def programs():
    out = []
    seen = set()

    def add(tag, lines, inn=None, outp=None):
        text = "\n".join(lines) + "\n"
        if text in seen:
            return
        seen.add(text)
        rec = {"program": text, "tag": tag}
        if inn is not None:
            rec["in"] = inn
        if outp is not None:
            rec["out"] = outp
        out.append(rec)

    _old_style(add)
    _count(add)
    _infsup(add)
    _chains(add)
    _pools(add)
    _arith(add)
    _inline(add)
    _minimize(add)
    _other_statements(add)
    return out
