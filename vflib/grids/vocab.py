"""Adversarial vocabulary grid for C07: programs on which passes invent names, whose *source* already uses names of the
shapes ngo generates (__aux_N, __dom_p, __min_/__max_/__next_/__chain_..., __agg, unique, anon__ngo, none) and the
hard-wired variable names (AUX, AUX0, X0, __NEXT, __PREV, P, N, B, X, L, G0, __AUX_0)."""
import itertools

# (trait tag, program template); {p} is the predicate to rename, {V}/{W} variables to rename
BASES = [
    ("symmetry", ":- {p}({V},{W}), {p}({V},{W}2), {W} != {W}2.\n{{ {p}(X,Y) : e(Y) }} :- d(X).\n"),
    ("symmetry", "h({V}) :- {p}({V},{W}), {p}({V},{W}2), {W} < {W}2.\n{{ {p}(X,Y) }} :- d(X), e(Y).\n"),
    ("minmax_chains", "best({V},{W}) :- d({V}), {W} = #max {{ Q : {p}({V},Q) }}.\n{{ {p}(X,Y) }} :- d(X), e(Y).\n"),
    ("minmax_chains", "low({W}) :- {W} = #min {{ Q : {p}(_,Q) }}.\n{{ {p}(X,Y) }} :- d(X), e(Y).\n:~ low({V}). [{V}@1]\n"),
    ("sum_chains", "{{ {p}({V},{W}) : e({W}) }} 1 :- d({V}).\ntot(S) :- S = #sum {{ {W},{V} : {p}({V},{W}) }}.\n"),
    ("sum_chains", "{{ {p}({V},{W}) : e({W}) }} 1 :- d({V}).\n#minimize {{ {W},{V} : {p}({V},{W}) }}.\n"),
    ("duplication", "a({V}) :- {p}({V},{W}), e({W}), {W} > 1.\nb({V}) :- {p}({V},{W}), e({W}), {W} > 1, d({V}).\n{{ {p}(X,Y) }} :- d(X), e(Y).\n"),
    ("projection", "a({V}) :- d({V}), {p}({V},{W}), e({W}), f(Z), g(Z,Q), Q > 1.\n{{ {p}(X,Y) }} :- d(X), e(Y).\n"),
    ("unused", "mid({V},{W}) :- {p}({V},{W}), e({W}).\nfin({V}) :- mid({V},_).\n{{ {p}(X,Y) }} :- d(X), e(Y).\n"),
    ("math", "a({V}) :- d({V}), X = #sum {{ Q : {p}({V},Q) }}, Y = #sum {{ Q : {p}(Q,{V}) }}, X + Y > 2.\n{{ {p}(X,Y) }} :- d(X), e(Y).\n"),
    ("inline", "hlp({V},S) :- d({V}), S = #sum {{ Q : {p}({V},Q) }}.\nres(T) :- T = #sum {{ S,{V} : hlp({V},S) }}.\n{{ {p}(X,Y) }} :- d(X), e(Y).\n"),
    ("normalize", "a({V}) :- {p}({V}+1,{W}), e({W}-1), 1 {{ {p}({V},_) }} 2.\n{{ {p}(X,Y) }} :- d(X), e(Y).\n"),
]
PRED_NAMES = ["sel", "__aux_1", "__aux_2", "__dom_sel", "__dom___dom_sel", "__dom___max_0_1", "__max_0_1", "__min_0_1", "__max_0_2", "__min_0_0__dom_sel",
              "__next_0_0__dom_sel", "__next_0__dom_sel", "__chain_0_0__max___dom_sel", "__chain__max_0_1", "__agg", "unique", "anon__ngo", "none", "sel1", "__dom_e", "__dom_d"]
VAR_PAIRS = [("P", "V"), ("AUX", "AUX0"), ("X0", "X1"), ("__NEXT", "__PREV"), ("P", "N"), ("B", "L"), ("X", "L"), ("G0", "G1"), ("__AUX_0", "__AUX_1"), ("N", "P"), ("L", "X"), ("__PREV", "__NEXT"), ("AUX", "X")]


def programs():
    out = []
    for bi, (trait, tmpl) in enumerate(BASES):
        for name in PRED_NAMES:
            prog = tmpl.format(p=name, V="A", W="C")
            out.append({"program": prog, "tag": f"vocab:{trait}:pred:{name}", "trait": trait})
        for v, w in VAR_PAIRS:
            prog = tmpl.format(p="sel", V=v, W=w)
            out.append({"program": prog, "tag": f"vocab:{trait}:vars:{v},{w}", "trait": trait})
    # predicates of generated shapes used as *inputs* / additional derived predicates next to a pass that generates them
    extras = [
        "__dom_sel(X) :- d(X).\n", "__aux_1(X) :- d(X).\n", "__aux_1(X,Y) :- d(X), e(Y).\n", "__max_0_1(X,Y) :- d(X), e(Y).\n", "__min_0_1(X) :- d(X).\n",
        "__next_0_0__dom_sel(X,Y) :- d(X), e(Y).\n", "__min_0_0__dom_sel(X) :- d(X).\n", "sel1(X,Y) :- d(X), e(Y).\n", "__dom_sel(X,Y) :- d(X), e(Y).\n",
        "__chain_0_0__max___dom___max_0_1(X,Y) :- d(X), e(Y).\n", "__dom___max_0_1(X) :- e(X).\n", "__dom___min_0_1(X) :- e(X).\n",
    ]
    for (trait, tmpl), extra in itertools.product(BASES[:9], extras):
        prog = tmpl.format(p="sel", V="A", W="C") + extra
        out.append({"program": prog, "tag": f"vocab:{trait}:extra:{extra.split('(')[0]}", "trait": trait})
    # two aggregates / joins on one source line (the harness also runs layout twins of everything)
    out.append({"program": "b1(X) :- X = #max { V : sel(a,V) }. b2(X) :- X = #max { V : sel(b,V) }.\n{ sel(X,Y) } :- d(X), e(Y).\n", "tag": "vocab:minmax:same-line", "trait": "minmax_chains"})
    out.append({"program": "b1(X) :- X = #min { V : sel(a,V) }. b2(X) :- X = #min { V : sel2(b,V) }.\n{ sel(X,Y) } :- d(X), e(Y).\n{ sel2(X,Y) } :- d(X), e(Y).\n", "tag": "vocab:minmax:same-line2", "trait": "minmax_chains"})
    out.append({"program": "b1(X) :- X = #max { V : sel(a,V) }. b2(X) :- X = #min { V : sel(b,V) }.\n{ sel(X,Y) } :- d(X), e(Y).\n", "tag": "vocab:minmax:same-line-minmax", "trait": "minmax_chains"})
    return out
