"""Grid for the `symmetry` pass (ngo/symmetry.py): joins of k in {2,3,4} atoms of one predicate under
pairwise inequalities.  Spanned side conditions: (1) which comparison literals count as a proof of
"unequal" (`!=`, `<`, `>`, `not =`, reversed, mixed, chained -- versus `<=`, `not >`, `not <`, cyclic `<`,
only adjacent pairs, one pair missing, comparison with a constant); (2) every other argument position must
be syntactically equal (same variable, same constant, `_`, equality literal `X1 = X2` / `not X1 != X2`)
versus different variables / constants; (3) the compared variables must not occur anywhere else: head
(plain, choice, choice condition, disjunction), other body literal (positive, negative, comparison,
aggregate, conditional literal), weak-constraint weight / priority / tuple, aggregate tuple, other
condition literal, global variable of the enclosing body; (4) one unequal position (-> #count) versus
several unequal positions / several groups sharing variables (-> one `!=` becomes `<`) versus a `<`
already being present (-> nothing), repeated variables inside one atom; (5) the join in a body versus in
an element condition of #count/#sum/#max (aux rule); (6) the joined predicate being input / choice-defined
/ derived with a computable domain (-> __dom_ predicate) / recursive / in a negative cycle / aggregate
dependent (no domain) / defined and given by the instance at the same time; (7) rule kind: constraint,
plain head, choice head, weak constraint, #minimize."""
import itertools

V = ["A", "B", "C", "D"]


# ---------------------------------------------------------------------------------------------
# building blocks
# ---------------------------------------------------------------------------------------------
def other_terms(k, other):
    """terms for the positions that are not compared + the extra literals that link them"""
    if other == "eqvar":
        return ["X"] * k, []
    if other == "const":
        return ["1"] * k, []
    if other == "diffconst":
        return [str(i + 1) for i in range(k)], []
    if other == "diffvar":
        return [f"X{i + 1}" for i in range(k)], []
    if other == "eqlit":
        return [f"X{i + 1}" for i in range(k)], [f"X{i + 1} = X{i + 2}" for i in range(k - 1)]
    if other == "neglit":
        return [f"X{i + 1}" for i in range(k)], [f"not X{i + 1} != X{i + 2}" for i in range(k - 1)]
    if other == "anon":
        return ["_"] * k, []
    if other == "constvar":
        return ["1"] + ["X"] * (k - 1), []
    raise ValueError(other)


def join_atoms(k, pos, other, pred="p", vs=None):
    vs = vs or V
    terms, extra = other_terms(k, other)
    atoms = []
    for i in range(k):
        if pos == "first":
            atoms.append(f"{pred}({vs[i]},{terms[i]})")
        else:
            atoms.append(f"{pred}({terms[i]},{vs[i]})")
    return atoms, extra


def comps(k, style, vs=None):
    vs = vs or V
    pairs = list(itertools.combinations(range(k), 2))
    out = []
    both = ["{a} != {b}", "{a} < {b}", "not {a} = {b}", "{b} > {a}", "{b} != {a}", "not {b} = {a}"]
    strict = ["{a} != {b}", "not {b} = {a}", "{b} != {a}", "not {a} = {b}"]
    order = ["{a} < {b}", "{b} > {a}"]
    special = ("cyc", "ltmix", "nechainlit", "ltchainlit")
    for n, (i, j) in enumerate([] if style in special else pairs):
        a, b = vs[i], vs[j]
        if style == "ne":
            out.append(f"{a} != {b}")
        elif style == "revne":
            out.append(f"{b} != {a}")
        elif style == "lt":
            out.append(f"{a} < {b}")
        elif style == "gt":
            out.append(f"{a} > {b}")
        elif style == "gtrev":
            out.append(f"{b} > {a}")
        elif style == "noteq":
            out.append(f"not {a} = {b}")
        elif style == "mixed":  # all of the `!=` family
            out.append(strict[(n + (0 if k > 2 else 1)) % len(strict)].format(a=a, b=b))
        elif style == "mixedlt":  # all of the `<` family
            out.append(order[(n + (0 if k > 2 else 1)) % len(order)].format(a=a, b=b))
        elif style == "mixedboth":  # `!=` and `<` on one position: nothing may be rewritten
            out.append(both[n % len(both)].format(a=a, b=b))
        elif style == "notgt":  # a <= b : no proof of inequality
            out.append(f"not {a} > {b}")
        elif style == "notlt":  # a >= b : no proof of inequality
            out.append(f"not {a} < {b}")
        elif style == "le":
            out.append(f"{a} <= {b}")
        elif style == "notne":  # equality
            out.append(f"not {a} != {b}")
        elif style == "chainonly":
            if j == i + 1:
                out.append(f"{a} < {b}")
        elif style == "nechainonly":
            if j == i + 1:
                out.append(f"{a} != {b}")
        elif style == "missing":
            if n < len(pairs) - 1:
                out.append(f"{a} != {b}")
        elif style == "dup":
            out.append(f"{a} != {b}")
            if n == 0:
                out.append(f"{a} != {b}")
        elif style == "both":
            out.append(f"{a} != {b}")
            if n == 0:
                out.append(f"{b} != {a}")
        elif style == "neconst":
            out.append(f"{a} != {b}" if n else f"{a} != 1")
        else:
            raise ValueError(style)
    if style == "cyc":  # unsatisfiable for k = 3, a < b and b < a for k = 2
        out = [f"{vs[i]} < {vs[(i + 1) % k]}" for i in range(k)]
    if style == "ltmix":  # a consistent order that is not the alphabetical one
        out = [f"{vs[k - 1]} < {vs[0]}"] + [f"{vs[i]} < {vs[j]}" for i, j in pairs if j != k - 1] + [
            f"{vs[i]} > {vs[k - 1]}" for i in range(1, k - 1)
        ]
    if style == "nechainlit":  # A != B != C plus the missing pairs
        out = [" != ".join(vs[:k])] + [f"{vs[i]} != {vs[j]}" for i, j in pairs if j > i + 1]
    if style == "ltchainlit":
        out = [" < ".join(vs[:k])] + [f"{vs[i]} < {vs[j]}" for i, j in pairs if j > i + 1]
    return out


def defs(mode, pos="first"):
    """rules that define p/2; (rules, extra input declarations)"""
    if mode == "input":
        return [], []
    if mode == "choice":
        return ["{ p(X,Y) } :- d(X), e(Y)."], []
    if mode == "choicecond":
        return ["{ p(X,Y) : d(X) } 2 :- e(Y)."], []
    if mode == "derived":
        return ["{ s(X) } :- d(X).", "p(X,Y) :- s(X), e(Y)."], []
    if mode == "derived2":
        return ["{ s(X,Y) } :- d(X), e(Y).", "p(X,Y) :- s(X,Y), not t(X).", "p(X,Y) :- t(X), e(Y)."], []
    if mode == "recursive":
        return ["{ q(X,Y) } :- d(X), e(Y).", "p(X,Y) :- q(X,Y).", "p(X,Y) :- p(X,Z), n(Z,Y)."], []
    if mode == "negcycle":
        return ["p(X,Y) :- d(X), e(Y), not np(X,Y).", "np(X,Y) :- d(X), e(Y), not p(X,Y)."], []
    if mode == "aggdep":
        return ["{ s(X) } :- d(X).", "p(X,Y) :- d(X), e(Y), 1 <= #count { Z : s(Z) }."], []
    if mode == "choice+input":  # p is choice-defined AND given by the instance
        return ["{ p(X,Y) : e(Y) } :- d(X), on."], [["p", 2]]
    if mode == "derived+input":
        return ["{ s(X) } :- d(X), on.", "p(X,Y) :- e(Y), s(X)."], [["p", 2]]
    if mode == "selfrec":  # the rewritten rule itself is recursive through p
        return ["{ q(X,Y) } :- d(X), e(Y).", "p(X,Y) :- q(X,Y)."], []
    if mode == "facts4":
        return (["p(1..4,0)."] if pos == "first" else ["p(0,1..4)."]), [["p", 2]]
    if mode == "choice4":
        return (["d(1..4).", "{ p(X,0) } :- d(X)."] if pos == "first" else ["d(1..4).", "{ p(0,X) } :- d(X)."]), []
    if mode == "facts3":
        return (["p(1..3,0)."] if pos == "first" else ["p(0,1..3)."]), [["p", 2]]
    raise ValueError(mode)


def body_of(k, style, pos="first", other="eqvar", pred="p", vs=None):
    atoms, extra = join_atoms(k, pos, other, pred, vs)
    return atoms + comps(k, style, vs) + extra


def programs():
    out = []
    seen = set()

    def add(rules, tag, inn=None, outp=None):
        text = "\n".join(rules) + "\n"
        if text in seen:
            return
        seen.add(text)
        rec = {"program": text, "tag": tag}
        if inn:
            rec["in"] = inn
        if outp:
            rec["out"] = outp
        out.append(rec)

    def stmt(head, body):
        if head == ":-":
            return ":- " + ", ".join(body) + "."
        if head.startswith(":~"):
            return ":~ " + ", ".join(body) + ". " + head[2:].strip()
        return head + " :- " + ", ".join(body) + "."

    def dmode(k, want="input"):
        if k == 4:
            return "facts4" if want == "input" else "choice4"
        return want

    # ----------------------------------------------------------------- A: core, firing side
    for k, style, pos, head in itertools.product(
        [2, 3, 4], ["ne", "lt", "gt", "noteq", "mixed", "mixedlt"], ["first", "last"], [":-", "h(X)"]
    ):
        if k == 4 and (style in ("gt", "noteq", "mixedlt") or (pos == "first") != (head == ":-")):
            continue
        if k < 4 and pos == "last" and head == ":-":
            continue
        want = "input" if (head == ":-") == (pos == "first") else "choice"
        if k == 4:
            want = "input" if style == "lt" else "choice"
        d, inn = defs(dmode(k, want), pos)
        add(d + [stmt(head, body_of(k, style, pos))], f"core-k{k}-{style}", inn)

    # ----------------------------------------------------------------- B: what proves "unequal"
    for k, style in itertools.product(
        [2, 3],
        ["notgt", "notlt", "le", "notne", "cyc", "chainonly", "nechainonly", "missing", "dup", "both", "neconst",
         "ltmix", "nechainlit", "ltchainlit", "gtrev", "revne", "mixedboth"],
    ):
        if k == 2 and style in ("chainonly", "nechainonly", "missing", "nechainlit", "ltchainlit", "ltmix", "mixedboth"):
            continue
        for head in ([":-", "h(X)"] if style in ("notgt", "notlt", "cyc", "le", "ltmix") else [":-"] if k == 2 else ["h(X)"]):
            d, inn = defs("input" if head == ":-" else "choice")
            add(d + [stmt(head, body_of(k, style))], f"proof-{style}", inn)
    for style in ["cyc", "chainonly", "missing", "notgt"]:
        d, inn = defs("choice4")
        add(d + [stmt("h(X)", body_of(4, style))], f"proof-{style}", inn)

    # ----------------------------------------------------------------- C: the other positions
    for k, style, other in itertools.product(
        [2, 3], ["ne", "lt"], ["const", "diffconst", "diffvar", "eqlit", "neglit", "anon", "constvar"]
    ):
        head = "h" if other in ("const", "diffconst", "anon") else ("h(X1)" if other in ("diffvar", "eqlit", "neglit") else "h(X)")
        if style == "lt":
            head = ":-" if k == 2 else head
        pos = "first" if (k == 2) == (style == "ne") else "last"
        d, inn = defs("choice" if style == "ne" else "input")
        add(d + [stmt(head, body_of(k, style, pos, other))], f"other-{other}", inn)

    # ----------------------------------------------------------------- D: compared variables used elsewhere
    uses = [
        ("head-plain", "h({u})", []),
        ("head-plain2", "h({u},X)", []),
        ("head-choice", "{{ h({u}) }}", []),
        ("head-choice-cond", "{{ h(X) : r({u}) }}", []),
        ("head-choice-cond2", "{{ h(Z) : r({u},Z) }}", []),
        ("head-disj", "h({u}) ; g(X)", []),
        ("head-bound", "1 <= {{ h(X,Z) : r(Z) }} {u}", []),
        ("body-pos", ":-", ["r({u})"]),
        ("body-pos", "h(X)", ["r({u})"]),
        ("body-neg", ":-", ["not r({u})"]),
        ("body-neg", "h(X)", ["not r({u})"]),
        ("body-cmp-const", "h(X)", ["{u} > 1"]),
        ("body-cmp-other", "h(X)", ["{u} != X"]),
        ("body-arith", "h(X)", ["r({u}+1)"]),
        ("body-assign", "h(Z)", ["Z = {u}"]),
        ("body-agg", "h(X)", ["1 <= #count {{ Z : s(Z,{u}) }}"]),
        ("body-agg-neg", ":-", ["not 1 <= #count {{ Z : s(Z,{u}) }}"]),
        ("body-agg-guard", "h(X)", ["{u} <= #count {{ Z : s(Z,X) }}"]),
        ("body-agg-tuple", "h(X)", ["1 <= #sum {{ {u},Z : s(Z,X) }}"]),
        ("body-cond", "h(X)", ["r(Z) : s(Z,{u})"]),
        ("body-cond-self", "h(X)", ["r({u}) : t({u})"]),
        ("body-cond-head", ":-", ["not r({u}) : t(X)"]),
        ("ok-head-other", "{{ h(X) }}", []),
        ("ok-head-disj", "h(X) ; g(X)", []),
        ("ok-body-other", "h(X)", ["r(X)", "not s(X,X)"]),
        ("ok-body-agg", ":-", ["1 <= #count {{ Z : s(Z,X) }}"]),
        ("ok-body-cond", "h(X)", ["r(Z) : s(Z,X)"]),
        ("ok-head-choice-cond", "{{ h(X,Z) : r(Z) }}", []),
    ]
    for n, (tag, head, extra) in enumerate(uses):
        for k, style in [(2, "ne"), (3, "lt" if n % 2 else "ne")]:
            u = V[0] if style == "ne" else V[k - 1]
            d, inn = defs("choice" if tag.startswith(("head", "ok-head")) else "input")
            body = body_of(k, style) + [e.format(u=u) for e in extra]
            add(d + [stmt(head.format(u=u), body)], f"use-{tag}", inn)

    # ----------------------------------------------------------------- E: weak constraints / minimize
    weak = [
        ("ok-tuple", ":~ [1@1,X]"),
        ("ok-weight", ":~ [X@1]"),
        ("ok-prio", ":~ [1@X]"),
        ("weight", ":~ [{u}@1]"),
        ("tuple", ":~ [1@1,{u}]"),
        ("tuple2", ":~ [1@1,X,{u}]"),
        ("prio", ":~ [1@{u},X]"),
        ("weight-arith", ":~ [X+{u}@1,X]"),
    ]
    for (tag, head), k in itertools.product(weak, [2, 3]):
        u = V[0] if k == 2 else V[1]
        d, inn = defs("choice")
        add(d + [stmt(head.format(u=u), body_of(k, "ne" if k == 2 else "lt"))], f"weak-{tag}", inn)
    for k, (tag, el) in itertools.product(
        [2, 3],
        [("ok-min", "#minimize {{ 1,X : {b} }}."), ("ok-max", "#maximize {{ X@2 : {b} }}."), ("min-weight", "#minimize {{ {u},X : {b} }}."),
         ("min-tuple", "#minimize {{ 2@1,X,{u} : {b} }}.")],
    ):
        d, inn = defs("choice")
        add(d + [el.format(u=V[k - 1], b=", ".join(body_of(k, "ne")))], f"weak-{tag}", inn)

    # ----------------------------------------------------------------- F: several unequal positions (arity 3), repeated variables
    multi = [
        ("two-ne", ["p(A,X,V)", "p(B,X,W)", "A != B", "V != W"], "h(X)", 1),
        ("two-ne-lastfirst", ["p(A,V,X)", "p(B,W,X)", "V != W", "A != B"], "h(X)", 0),
        ("two-ne-head-uses", ["p(A,X,V)", "p(B,X,W)", "A != B", "V != W"], "h(V)", 0),
        ("two-ne-body-uses", ["p(A,X,V)", "p(B,X,W)", "A != B", "V != W", "r(W)"], "h(X)", 0),
        ("two-ne-body-uses-first", ["p(A,X,V)", "p(B,X,W)", "A != B", "V != W", "r(A)"], "h(X)", 0),
        ("ne-lt", ["p(A,X,V)", "p(B,X,W)", "A != B", "V < W"], "h(X)", 1),
        ("lt-ne", ["p(A,X,V)", "p(B,X,W)", "A < B", "V != W"], "h(X)", 0),
        ("lt-lt", ["p(A,X,V)", "p(B,X,W)", "A < B", "V < W"], "h(X)", 0),
        ("lt-gt", ["p(A,X,V)", "p(B,X,W)", "A < B", "V > W"], "h(X)", 1),
        ("three-ne", ["p(A,X,V)", "p(B,Y,W)", "A != B", "V != W", "X != Y"], "h", 1),
        ("two-ne-one-unproven", ["p(A,X,V)", "p(B,Y,W)", "A != B", "V != W"], "h", 0),
        ("k3-two-ne", ["p(A,X,V)", "p(B,X,W)", "p(C,X,U)", "A != B", "A != C", "B != C", "V != W", "V != U", "W != U"], "h(X)", 1),
        ("k3-two-ne-partial", ["p(A,X,V)", "p(B,X,W)", "p(C,X,U)", "A != B", "A != C", "B != C", "V != W", "W != U"], "h(X)", 0),
        ("k3-ne-lt", ["p(A,X,V)", "p(B,X,W)", "p(C,X,U)", "A != B", "A != C", "B != C", "V < W", "W < U", "V < U"], "h(X)", 0),
        ("rep-diag", ["p(A,A,X)", "p(B,B,X)", "A != B"], "h(X)", 1),
        ("rep-diag-asym", ["p(A,A,X)", "p(B,C,X)", "A != B", "A != C"], "h(X)", 1),
        ("rep-diag-asym-lt", ["p(A,A,X)", "p(B,C,X)", "A < B", "A != C"], "h(X)", 0),
        ("rep-cross", ["p(A,B,X)", "p(B,A,X)", "A != B"], "h(X)", 1),
        ("rep-cross-lt", ["p(A,B,X)", "p(B,A,X)", "A < B"], "h(X)", 0),
        ("rep-cross-k3", ["p(A,B,X)", "p(B,C,X)", "p(C,A,X)", "A != B", "B != C", "A != C"], "h(X)", 1),
        ("rep-eqpos", ["p(A,A,X)", "p(B,A,X)", "A != B"], "h(X)", 1),
        ("rep-eqpos-lt", ["p(A,A,X)", "p(B,A,X)", "B < A"], "h(X)", 0),
        ("rep-eqpos-k3", ["p(A,C,X)", "p(B,C,X)", "p(C,C,X)", "A != B", "A != C", "B != C"], "h(X)", 1),
        ("rep-shift", ["p(A,B,X)", "p(B,C,X)", "A != B", "B != C"], "h(X)", 1),
        ("arity3-one-pos", ["p(A,X,Y)", "p(B,X,Y)", "A != B"], "h(X,Y)", 1),
        ("arity3-mid-pos", ["p(X,A,Y)", "p(X,B,Y)", "p(X,C,Y)", "A != B", "A != C", "B != C"], "h(X,Y)", 1),
        ("arity3-func", ["p(A,f(X),Y)", "p(B,f(X),Y)", "A != B"], "h(X,Y)", 0),
        ("arity3-func-uneq", ["p(f(A),X,Y)", "p(f(B),X,Y)", "A != B"], "h(X,Y)", 0),
        ("arity3-arith-eq", ["p(A,X+1,Y)", "p(B,X+1,Y)", "A != B", "r(X)"], "h(X,Y)", 0),
    ]
    for tag, body, head, both in multi:
        add([stmt(head, body)], f"multi-{tag}")
        if both:
            add(["{ p(X,Y,Z) } :- t(X,Y,Z).", stmt(":-", body)], f"multi-{tag}")
    # the same repeated-variable shapes with arity 2 over a full square domain, so that every witness exists
    rep2 = [
        ("rep-diag", ["p(A,A)", "p(B,B)", "A != B"]),
        ("rep-diag-asym", ["p(A,A)", "p(B,C)", "A != B", "A != C"]),
        ("rep-cross", ["p(A,B)", "p(B,A)", "A != B"]),
        ("rep-cross-lt", ["p(A,B)", "p(B,A)", "A < B"]),
        ("rep-eqpos", ["p(A,A)", "p(B,A)", "A != B"]),
        ("rep-eqpos-k3", ["p(A,C)", "p(B,C)", "p(C,C)", "A != B", "A != C", "B != C"]),
        ("rep-shift", ["p(A,B)", "p(B,C)", "A != B", "B != C"]),
        ("rep-shift-lt", ["p(A,B)", "p(B,C)", "A < B", "B < C"]),
    ]
    for n, (tag, body) in enumerate(rep2):
        add(["{ p(X,Y) } :- d(X), d(Y).", stmt("h" if n % 2 else ":-", body)], f"multi-{tag}")

    # ----------------------------------------------------------------- G: several groups
    groups = [
        ("share-both", ["p(A,X)", "p(B,X)", "q(A,Y)", "q(B,Y)", "A != B"], "h(X,Y)", 1),
        ("share-both-lt", ["p(A,X)", "p(B,X)", "q(A,Y)", "q(B,Y)", "A < B"], "h(X,Y)", 0),
        ("share-both-k3", ["p(A,X)", "p(B,X)", "p(C,X)", "q(A,Y)", "q(B,Y)", "q(C,Y)", "A != B", "A != C", "B != C"], "h(X,Y)", 1),
        ("share-crossed", ["p(A,X)", "p(B,X)", "q(B,Y)", "q(A,Z)", "A != B"], "h(X)", 0),
        ("share-chain", ["p(A,X)", "p(B,X)", "q(B,Y)", "q(C,Y)", "A != B", "B != C"], "h(X,Y)", 1),
        ("share-chain-rev", ["q(B,Y)", "q(C,Y)", "p(A,X)", "p(B,X)", "B != C", "A != B"], "h(X,Y)", 1),
        ("share-chain-lt", ["p(A,X)", "p(B,X)", "q(B,Y)", "q(C,Y)", "A != B", "B < C"], "h(X,Y)", 0),
        ("share-chain3", ["p(A,X)", "p(B,X)", "q(B,Y)", "q(C,Y)", "r(C,Z)", "r(A,Z)", "A != B", "B != C", "A != C"], "h(X)", 1),
        ("indep", ["p(A,X)", "p(B,X)", "q(C,Y)", "q(D,Y)", "A != B", "C != D"], "h(X,Y)", 1),
        ("indep-lt", ["p(A,X)", "p(B,X)", "q(C,Y)", "q(D,Y)", "A != B", "C < D"], "h(X,Y)", 0),
        ("indep-same-eq", ["p(A,X)", "p(B,X)", "q(C,X)", "q(D,X)", "A != B", "C != D"], "h(X)", 0),
        ("indep-one-blocked", ["p(A,X)", "p(B,X)", "q(C,Y)", "q(D,Y)", "A != B", "C != D", "r(C)"], "h(X,Y)", 1),
        ("indep-cross-cmp", ["p(A,X)", "p(B,X)", "q(C,Y)", "q(D,Y)", "A != B", "C != D", "B != C"], "h(X,Y)", 0),
        ("same-pred-pairs", ["p(A,X)", "p(B,X)", "p(C,Y)", "p(D,Y)", "A != B", "C != D"], "h(X,Y)", 1),
        ("same-pred-pairs-xy", ["p(A,X)", "p(B,X)", "p(C,Y)", "p(D,Y)", "A != B", "C != D", "X != Y"], "h", 1),
        ("k3-pair-only", ["p(A,X)", "p(B,X)", "p(C,Y)", "A != B"], "h(X,Y)", 0),
        ("k3-pair-plus-linked", ["p(A,X)", "p(B,X)", "p(C,X)", "A != B"], "h(X)", 1),
        ("pair-plus-unproven", ["p(A,X)", "p(B,X)", "q(A,C)", "q(B,D)", "A != B"], "h(X)", 0),
        ("pair-plus-proven", ["p(A,X)", "p(B,X)", "q(A,C)", "q(B,D)", "A != B", "C != D"], "h(X)", 1),
        ("single-lits", ["p(A,X)", "p(B,X)", "r(A)", "r(B)", "A != B"], "h(X)", 1),
        ("single-lits-neg", ["p(A,X)", "p(B,X)", "not r(A)", "not r(B)", "A != B"], "h(X)", 0),
        ("single-lits-mixed-sign", ["p(A,X)", "p(B,X)", "r(A)", "not r(B)", "A != B"], "h(X)", 1),
        ("single-lits-dneg", ["p(A,X)", "p(B,X)", "not not r(A)", "not r(B)", "A != B"], "h(X)", 0),
        ("single-lits-one", ["p(A,X)", "p(B,X)", "r(A)", "A != B"], "h(X)", 0),
        ("single-lits-k3", ["p(A,X)", "p(B,X)", "p(C,X)", "r(A)", "r(B)", "r(C)", "A != B", "A != C", "B != C"], "h(X)", 0),
        ("single-lits-k3-two", ["p(A,X)", "p(B,X)", "p(C,X)", "r(A)", "r(B)", "A != B", "A != C", "B != C"], "h(X)", 1),
        ("neg-and-pos-same", ["p(A,X)", "p(B,X)", "not q(A,X)", "not q(B,X)", "A != B"], "h(X)", 0),
        ("same-name-other-arity", ["p(A,X)", "p(B,X)", "p(A)", "p(B)", "A != B"], "h(X)", 0),
        ("same-name-other-arity-one", ["p(A,X)", "p(B,X)", "p(A)", "A != B"], "h(X)", 0),
    ]
    for tag, body, head, both in groups:
        add([stmt(head, body)], f"groups-{tag}")
        if both:
            add(["{ p(X,Y) } :- d(X), e(Y).", stmt(":-", body)], f"groups-{tag}")

    # ----------------------------------------------------------------- H: join inside aggregate elements
    aggs = [
        ("ok-count", ":-", [], "2 <= #count {{ X : {j} }}"),
        ("ok-count-rule", "h", [], "1 <= #count {{ X : {j} }}"),
        ("ok-count-upper", "h", [], "#count {{ X : {j} }} <= 1"),
        ("ok-count-assign", "h(N)", [], "N = #count {{ X : {j} }}"),
        ("ok-sum", "h(N)", [], "N = #sum {{ X : {j} }}"),
        ("ok-sum-neg", "h(N)", [], "N = #sum {{ -X,X : {j} }}"),
        ("ok-sum-const", ":-", [], "3 <= #sum {{ 2,X : {j} }}"),
        ("ok-max", "h(N)", [], "N = #max {{ X : {j} }}"),
        ("ok-not", "h", [], "not 1 <= #count {{ X : {j} }}"),
        ("ok-cond-other", "h", [], "1 <= #count {{ X : {j}, r(X) }}"),
        ("ok-cond-neg-other", "h", [], "1 <= #count {{ X : {j}, not r(X) }}"),
        ("ok-two-elements", "h", [], "2 <= #count {{ X : {j} ; Z,r : r(Z) }}"),
        ("ok-two-joins", "h", [], "2 <= #count {{ X,1 : {j} ; X,2 : {j2} }}"),
        ("ok-global-eq", "h(X)", ["r(X)"], "1 <= #count {{ 1 : {j} }}"),
        ("ok-global-eq-tuple", "h(X)", ["r(X)"], "1 <= #count {{ X : {j} }}"),
        ("ok-choice-head", "{{ h(Z) }}", ["r(Z)"], "1 <= #count {{ X : {j} }}"),
        ("ok-weak", ":~ [1@1]", [], "1 <= #count {{ X : {j} }}"),
        ("ok-other-element", "h", [], "2 <= #count {{ X : {j} ; {u},r : r({u}) }}"),
        ("ok-other-aggregate", "h", ["1 <= #count {{ {u} : r({u}) }}"], "1 <= #count {{ X : {j} }}"),
        ("ok-guard-global", "h", ["r(G)"], "G <= #count {{ X : {j} }}"),
        ("tuple", "h", [], "2 <= #count {{ {u} : {j} }}"),
        ("tuple2", "h(N)", [], "N = #count {{ X,{u} : {j} }}"),
        ("weight", "h(N)", [], "N = #sum {{ {u},X : {j} }}"),
        ("max-term", "h(N)", [], "N = #max {{ {u} : {j} }}"),
        ("cond-pos", "h", [], "1 <= #count {{ X : {j}, r({u}) }}"),
        ("cond-neg", "h", [], "1 <= #count {{ X : {j}, not r({u}) }}"),
        ("cond-cmp", "h", [], "1 <= #count {{ X : {j}, {u} > 1 }}"),
        ("global-body", "h", ["r({u})"], "1 <= #count {{ X : {j} }}"),
        ("global-head", "h({u})", ["r({u})"], "1 <= #count {{ X : {j} }}"),
        ("global-weak", ":~ [{u}@1]", ["r({u})"], "1 <= #count {{ X : {j} }}"),
    ]
    for n, (tag, head, extra, agg) in enumerate(aggs):
        variants = [(2, "ne"), (3, "lt" if n % 2 else "ne")]
        if tag.startswith("ok-") and n % 3:
            variants = variants[n % 2:][:1]
        for k, style in variants:
            u = V[0] if style == "ne" else V[k - 1]
            j = ", ".join(body_of(k, style))
            j2 = ", ".join(body_of(k, style, pred="q"))
            d, inn = defs("input" if (k + n) % 2 else "choice")
            body = [e.format(u=u) for e in extra] + [agg.format(u=u, j=j, j2=j2)]
            add(d + [stmt(head.format(u=u), body)], f"agg-{tag}", inn)
    agg_multi = [
        ("two-ne", "2 <= #count { X : p(A,X,V), p(B,X,W), A != B, V != W }"),
        ("two-ne-tuple-uses", "2 <= #count { X,V : p(A,X,V), p(B,X,W), A != B, V != W }"),
        ("ne-lt", "1 <= #count { X : p(A,X,V), p(B,X,W), A != B, V < W }"),
        ("share-both", "1 <= #count { X,Y : p(A,X,Y), p(B,X,Y), q(A,Y), q(B,Y), A != B }"),
        ("share-chain", "1 <= #count { X : p(A,X,Y), p(B,X,Y), q(B,Z), q(C,Z), A != B, B != C }"),
        ("indep", "1 <= #count { X,Y : p(A,X,X), p(B,X,X), q(C,Y), q(D,Y), A != B, C != D }"),
        ("rep-eqpos", "1 <= #count { X : p(A,A,X), p(B,A,X), A != B }"),
        ("rep-diag-asym", "1 <= #count { X : p(A,A,X), p(B,C,X), A != B, A != C }"),
        ("eq-const-arg", "1 <= #count { X : p(A,X,1), p(B,X,1), A != B }"),
        ("eq-global-arg", "r(G), 1 <= #count { X : p(A,X,G), p(B,X,G), A != B }"),
        ("eqlit", "1 <= #count { X1 : p(A,X1,Y), p(B,X2,Y), A != B, X1 = X2 }"),
        ("notgt", "1 <= #count { X : p(A,X,Y), p(B,X,Y), not A > B }"),
        ("cyc", "1 <= #count { X : p(A,X,Y), p(B,X,Y), p(C,X,Y), A < B, B < C, C < A }"),
        ("dup", "1 <= #count { X : p(A,X,Y), p(B,X,Y), A != B, A != B }"),
    ]
    for (tag, agg), head in itertools.product(agg_multi, ["h", ":-"]):
        pre = ["{ p(X,Y,Z) } :- t(X,Y,Z)."] if head == ":-" else []
        add(pre + [stmt(head, [agg])], f"agg-multi-{tag}")

    # ----------------------------------------------------------------- I: how the joined predicate is defined
    ctxs = {
        "constraint": lambda j: stmt(":-", j),
        "rule": lambda j: stmt("h(X)", j),
        "agg": lambda j: stmt("h", ["1 <= #count { X : " + ", ".join(j) + " }"]),
    }
    for dm in ["choice", "choicecond", "derived", "derived2", "recursive", "negcycle", "aggdep", "choice+input",
               "derived+input", "facts3"]:
        for k, cname, style in [(2, "constraint", "ne"), (2, "agg", "ne"), (3, "rule", "ne"), (2, "rule", "lt"), (3, "agg", "lt")]:
            pos = "first" if dm not in ("choicecond", "derived2") or k == 2 else "last"
            if dm.endswith("+input"):
                pos = "last"
            d, inn = defs(dm, pos)
            add(d + [ctxs[cname](body_of(k, style, pos))], f"def-{dm}", inn)
    d, inn = defs("selfrec")
    add(d + ["p(Z,X) :- p(A,X), p(B,X), A != B, d(Z)."], "def-selfrec")
    add(d + ["p(X,X) :- p(A,X), p(B,X), p(C,X), A < B, B < C, A < C."], "def-selfrec")
    add(d + ["p(Z,X) :- d(Z), e(X), 1 <= #count { Y : p(A,Y), p(B,Y), A != B }."], "def-selfrec")
    add(d + ["{ p(Z,X) } :- p(A,X), p(B,X), A != B, d(Z)."], "def-selfrec")
    # the definition uses the positions differently (constants / projection / intervals / pools / other head kinds)
    special = [
        ("def-const-arg", ["{ p(X,1) } :- d(X).", "{ p(X,Y) } :- d(X), e(Y), X < Y."]),
        ("def-swapped", ["{ p(Y,X) } :- d(X), e(Y)."]),
        ("def-cond-negative", ["{ p(X,Y) } :- d(X), e(Y), not b(X)."]),
        ("def-interval", ["{ p(1..3,Y) } :- e(Y)."]),
        ("def-pool", ["{ p((1;2;3),Y) } :- e(Y)."]),
        ("def-disjunction", ["p(X,Y) ; np(X,Y) :- d(X), e(Y)."]),
        ("def-headagg", ["1 <= #count { X : p(X,Y) : d(X) } :- e(Y)."]),
        ("def-classical-neg", ["{ p(X,Y) } :- d(X), e(Y).", "-p(X,Y) :- d(X), e(Y), not p(X,Y)."]),
    ]
    for (tag, d), (k, cname) in itertools.product(special, [(2, "constraint"), (2, "agg"), (3, "rule")]):
        add(d + [ctxs[cname](body_of(k, "ne"))], tag)

    # ----------------------------------------------------------------- J: several rewritten statements, fresh names
    ch = "{ p(X,Y) } :- d(X), e(Y)."
    j2, j3 = ", ".join(body_of(2, "ne")), ", ".join(body_of(3, "lt"))
    add([ch, f"h(X) :- {j2}.", f":- {j3}."], "several-two-rules-one-domain")
    add([ch, "{ q(X,Y) } :- d(X), e(Y).", f"h(X) :- {j2}.", "g(X) :- " + ", ".join(body_of(2, "ne", pred="q")) + "."], "several-two-domains")
    add([ch, f"h :- 1 <= #count {{ X : {j2} }}, 1 <= #count {{ X : {j3} }}."], "several-two-aux-one-body")
    add([ch, f"h :- 1 <= #count {{ X : {j2} }}.", f"g :- 1 <= #count {{ X : {j3} }}."], "several-two-aux-two-rules")
    add([ch, f"h(X) :- {j2}, 1 <= #count {{ Y : " + ", ".join(body_of(2, "ne", other="diffvar", vs=["C", "D"])).replace("X1", "Y").replace("X2", "Y") + " }."],
        "several-body-and-agg")
    add([ch, "__aux_1(X) :- e(X).", f"h :- 1 <= #count {{ X : {j2} }}, __aux_1(Y)."], "several-name-aux-taken")
    add([ch, "__dom_p(X,Y) :- d(X), e(Y), X != Y.", f"h(X) :- {j2}, not __dom_p(X,X)."], "several-name-dom-taken")
    add(["{ p(X,Y) } :- __dom_p(X,Y).", f"h(X) :- {j2}."], "several-name-dom-input", [["__dom_p", 2]])
    return out
