"""Programs added after the second round of seeded changes (DESIGN section 10.2): every block spans the input shape one
missed change needed, with neighbours on both sides of the side condition.  Included by extra.programs()."""
from __future__ import annotations

import itertools


def _projection():
    out = []
    # an aggregate / conditional literal uses a variable that another body literal binds; a separate literal group can be
    # split off.  The aggregate may only move together with its binder.
    users = [
        "#count { I : stock(I,D) } >= 1",
        "1 <= #sum { 1,I : stock(I,D) }",
        "not #count { I : stock(I,D) } >= 2",
        "N = #count { I : stock(I,D) }, N > 0",
        "ok(I,D) : stock(I,D)",
        "not stock(I,D) : item(I)",
        "#max { W : weight(D,W) } > 2",
    ]
    for u in users:
        out.append({"program": f"served(C) :- depot(D,C), {u}, counter(K), staffed(K).", "tag": "y-projection-agg-uses-outer", "trait": "projection"})
        out.append({"program": f"served(C) :- counter(K); staffed(K); {u}; depot(D,C).", "tag": "y-projection-agg-uses-outer-rev", "trait": "projection"})
        out.append({"program": f"{{ served(C) }} :- depot(D,C), {u}, counter(K), staffed(K), open(K,Z).", "tag": "y-projection-agg-uses-outer-choice", "trait": "projection"})
        # the binder is in the part that is split off, the user stays
        out.append({"program": f"over(U,N) :- member(U,D,K), valid(K,Z), quota(U,N), {u}.", "tag": "y-projection-user-stays", "trait": "projection"})
    # two rules whose split-off parts are literally the same but keep different variables
    pairs = [
        ("h(A,D,F) :- q(A,B,C), t(B,E), r(A,D,F).", "g(B,D,F) :- q(A,B,C), t(B,E), r2(B,D,F)."),
        ("h(A,D,F) :- q(A,B,C), t(B,E), r(A,D,F).", "g(A,D,F) :- q(A,B,C), t(B,E), r2(A,D,F)."),
        ("h(A,C,D,F) :- q(A,B,C), t(E), not s(B,E), r(A,C,D,F).", "{ g(B,C,D,F) } :- q(A,B,C), t(E), not s(B,E), r2(B,C,D,F)."),
        ("h(A,D,F) :- q(A,B,C), t(B,E), r(A,D,F).", ":- q(A,B,C), t(B,E), r2(C,D,F), not h(C,D,F)."),
    ]
    for a, b in pairs:
        out.append({"program": a + "\n" + b, "tag": "y-projection-same-part-twice", "trait": "projection"})
        out.append({"program": b + "\n" + a, "tag": "y-projection-same-part-twice-rev", "trait": "projection"})
    # a variable that the head uses only inside an element whose own condition binds it as well
    heads = [
        "{ a(X,Y,D) : b(Y) }",
        "a(X,Y,D) : b(Y) ; c(X)",
        "1 <= #count { Z : a(X,Y,D) : b(Y,Z) }",
        "{ a(X,Y,D) : b(Y) ; e(X,D) }",
        "#sum { Y : a(X,Y,D) : b(Y) } <= 5",
    ]
    bodies = ["q(X,B,C), t(B,Y), r(X,D)", "q(X,B,C), t(B,E), r(X,D)", "q(X,B,C), t(B,Y), r(X,D,Y)", "r(X,D), t(B,Y), q(X,B,C)"]
    for h, b in itertools.product(heads, bodies):
        out.append({"program": f"{h} :- {b}.", "tag": "y-projection-head-condition-binds", "trait": "projection"})
    return out


def _minmax():
    out = []
    choice = "{ sel(P,V) } :- skill(P,V).\n"
    # a conditional literal / aggregate next to the min/max aggregate whose local variable has a name ngo uses itself;
    # persons and candidates come from the instance, so that there are groups without any candidate
    for name in ("X", "X0", "E", "__NEXT", "__PREV", "P0", "N", "B", "L"):
        for fn in ("#max", "#min"):
            out.append({"program": choice + f"res(P,M) :- person(P), M = {fn} {{ V : sel(P,V) }}, ok(P,{name}) : cand({name}).", "tag": f"y-minmax-open-localname:{name}", "trait": "minmax_chains", "in": [["person", 1], ["skill", 2], ["ok", 2], ["cand", 1]]})
        out.append({"program": choice + f"res(P,M) :- person(P), M = #max {{ V : sel(P,V) }}, not bad(P,{name}) : cand({name}).\n{{ hire(P) }} :- res(P,_).", "tag": f"y-minmax-open-localname-neg:{name}", "trait": "minmax_chains", "in": [["person", 1], ["skill", 2], ["bad", 2], ["cand", 1]]})
    # stored results as weights of #sum+ (never replaced: the base of a chain can be negative)
    base = "skill(P,V) :- base(P,V).\n{ skill(P,V) } :- cand(P,V).\n"
    for fn, agg, w in itertools.product(("#max", "#min"), ("#sum+", "#sum"), ("X", "-X")):
        out.append({"program": base + f"best(P,X) :- X = {fn} {{ V : skill(P,V) }}, person(P).\ntotal(S) :- S = {agg} {{ {w},P : best(P,X) }}.", "tag": f"y-minmax-result-in-{agg}", "trait": "minmax_chains", "in": [["base", 2], ["cand", 2], ["person", 1]]})
        # every person has the value 1 (or 9 for #min): a negative (large) value is never the result, no #inf/#sup tuple
        anchor = "skill(P,1) :- person(P).\n" if fn == "#max" else "skill(P,-1) :- person(P).\n"
        out.append({"program": base + anchor + f"best(P,X) :- X = {fn} {{ V : skill(P,V) }}, person(P).\ntotal(S) :- S = {agg} {{ {w},P : best(P,X) }}.", "tag": f"y-minmax-result-in-{agg}-anchored", "trait": "minmax_chains", "in": [["base", 2], ["cand", 2], ["person", 1]]})
    # several translated aggregates on one source line, with and without group variables
    ch2 = "{ sel(P,V) : skill(P,V) } :- person(P).\n{ buy(P,C) : price(P,C) } :- person(P).\n"
    best, dear = "best(P,X) :- X = {f} {{ V : sel(P,V) }}, person(P).", "dear(P,X) :- X = {f} {{ C : buy(P,C) }}, person(P)."
    bestf, dearf = "best(X) :- X = {f} {{ V : sel(_,V) }}.", "dear(X) :- X = {f} {{ C : buy(_,C) }}."
    for f in ("#max", "#min"):
        for a, b, tag in ((best, dear, "grouped"), (bestf, dearf, "flat"), (best, dearf, "mixed"), (bestf, dear, "mixed-rev")):
            out.append({"program": ch2 + a.format(f=f) + " " + b.format(f=f), "tag": f"y-minmax-one-line:{tag}", "trait": "minmax_chains", "in": [["person", 1], ["skill", 2], ["price", 2]]})
            out.append({"program": ch2 + a.format(f=f) + "\n" + b.format(f=f), "tag": f"y-minmax-two-lines:{tag}", "trait": "minmax_chains", "in": [["person", 1], ["skill", 2], ["price", 2]]})
    # a result rule with a further literal that restricts it, used as the weight of an objective
    obj = "{ pick(G,V) : dom(G,V) } :- grp(G).\n"
    for guard in ("M > 0", "floor(L), M >= L", "M != 2", "not veto(G)"):
        for fn in ("#max", "#min"):
            out.append({"program": obj + f"pick(G,0) :- grp(G).\nbest(G,M) :- M = {fn} {{ V : pick(G,V) }}, grp(G), {guard}.\n:~ best(G,M). [M@1,G]", "tag": "y-minmax-guarded-result-objective", "trait": "minmax_chains", "out": [["pick", 2]]})
    # one predicate name at two arities, both choice-defined, the second one reached through a derived predicate
    for a, b in (("slot(D)", "slot(D,T)"), ("slot(D,T)", "slot(D)")):
        r1 = f"{{ {a} }} :- {'day(D)' if a == 'slot(D)' else 'offer(D,T)'}."
        r2 = f"{{ {b} }} :- {'day(D)' if b == 'slot(D)' else 'offer(D,T)'}."
        for fn in ("#max", "#min"):
            out.append({"program": f"{r1}\n{r2}\n:- slot(D,_), not slot(D).\nused(D) :- slot(D,T).\nlast(M) :- M = {fn} {{ D : used(D) }}.", "tag": "y-domains-one-name-two-arities", "trait": "minmax_chains", "in": [["day", 1], ["offer", 2]]})
            out.append({"program": f"{r1}\n{r2}\nused(D) :- slot(D,T).\nopen(D) :- slot(D).\nlast(M) :- M = {fn} {{ D : used(D) }}.\nfirst(M) :- M = {fn} {{ D : open(D) }}.", "tag": "y-domains-one-name-two-arities-both", "trait": "minmax_chains", "in": [["day", 1], ["offer", 2]]})
    return out


def _cleanup():
    out = []
    # an input predicate shares a head with a predicate that is not an input
    heads = ["{ pick(X); mark(X) }", "pick(X) ; mark(X)", "1 { pick(X); mark(X) } 2", "{ mark(X) ; pick(X) }", "#count { 1 : pick(X) ; 2 : mark(X) } >= 1"]
    for h in heads:
        prg = f"{h} :- cand(X), ok(X).\ngood(X) :- mark(X), ok(X).\nflag(X) :- cand(X), not good(X)."
        out.append({"program": prg, "tag": "y-cleanup-input-shares-head", "trait": "cleanup", "in": [["cand", 1], ["ok", 1], ["mark", 1]]})
        out.append({"program": prg, "tag": "y-cleanup-input-shares-head-closed", "trait": "cleanup", "in": [["cand", 1], ["ok", 1]]})
        out.append({"program": f"{h} :- cand(X), ok(X).\n:- mark(X), ok(X), cand(X), not pick(X).", "tag": "y-cleanup-input-shares-head-constraint", "trait": "cleanup", "in": [["cand", 1], ["ok", 1], ["mark", 1]]})
    return out


def _duplication():
    out = []
    tail = ", on, ready.\ngo :- on, ready, start."
    # equalities whose right-hand side contains an interval or pool inside a term
    eqs = ["X = Y+(-1..1)", "X = Y+1", "X = (Y..Y+1)", "X = 2*(0..1)+Y", "S = slot(Y,(1..2)), at(S,X)", "X = |Y-(0..1)|"]
    for e in eqs:
        out.append({"program": f"near(X,Y) :- cell(Y), {e}, cell(X){tail}", "tag": "y-duplication-interval-in-term", "trait": "duplication", "in": [["cell", 1], ["on", 0], ["ready", 0], ["start", 0], ["at", 2]]})
        out.append({"program": "{ take(X) : cell(X) }.\n" + f":~ take(Y), {e}, not take(X), cell(X), on, ready. [1@1,X,Y]\ngo :- on, ready, start.", "tag": "y-duplication-interval-in-term-weak", "trait": "duplication", "in": [["cell", 1], ["on", 0], ["ready", 0], ["start", 0], ["at", 2]], "out": [["take", 1], ["go", 0]]})
    # a second round of duplication after arithmetic has been taken out of an atom
    out.append({"program": "r1(X,Y,Z) :- a(X,Y), b(Y,Z), c1.\nr2(X,Y,Z) :- a(X,Y), b(Y,Z), c2.\ns1(X) :- e(Y) : p(X+1,Y); d(X), c1.\ns2(X) :- e(Y) : p(X+1,Y); d(X), c2.", "tag": "y-duplication-second-round", "trait": "duplication"})
    out.append({"program": "r1(X,Y,Z) :- a(X,Y), b(Y,Z), c1.\nr2(X,Y,Z) :- a(X,Y), b(Y,Z), c2.\ns1(X,Y) :- p(X+1,Y), e(Y), c1.\ns2(X,Y) :- p(X+1,Y), e(Y), c2.", "tag": "y-duplication-second-round", "trait": "duplication"})
    return out


def _sumchains():
    out = []
    # two objectives with the literally identical tuple, one over an at-most-one predicate; ties come from the program
    ch = "{ start(J,T) : slot(J,T) } 1 :- job(J).\nlate(J,T) :- slot(J,T), delayed(J).\n"
    for a, b in ((":~ start(J,T). [T,J]", ":~ late(J,T). [T,J]"), ("#minimize { T,J : start(J,T) }.", "#minimize { T,J : late(J,T) }."), (":~ start(J,T). [T@2,J]", ":~ late(J,T). [T@2,J]"), (":~ start(J,T). [T,J]", ":~ late(J,W). [W,J]")):
        out.append({"program": ch + a + "\n" + b, "tag": "y-sumchains-same-tuple-tie", "trait": "sum_chains", "out": [["start", 2]]})
        out.append({"program": ch + b + "\n" + a, "tag": "y-sumchains-same-tuple-tie-rev", "trait": "sum_chains", "out": [["start", 2]]})
    # two at-most-one elements in one aggregate; the group variable of the second is hidden from its tuple
    two = "{ shift(P,L) : level(P,L) } 1 :- person(P).\n{ extra(P,H) : hours(P,H) } 1 :- person(P).\n"
    elems = [("L,P : shift(P,L), works(P,D)", "H : extra(P,H), works(P,D)"), ("L,P : shift(P,L), works(P,D)", "H,P : extra(P,H), works(P,D)"), ("L : shift(P,L), works(P,D)", "H : extra(P,H), works(P,D)"), ("L,P,s : shift(P,L), works(P,D)", "H,x : extra(P,H), works(P,D)")]
    for e1, e2 in elems:
        out.append({"program": two + f"pay(D,X) :- dept(D), X = #sum {{ {e1} ; {e2} }}.", "tag": "y-sumchains-two-elements", "trait": "sum_chains"})
        out.append({"program": two + f"pay(D,X) :- dept(D), X = #sum {{ {e2} ; {e1} }}.", "tag": "y-sumchains-two-elements-rev", "trait": "sum_chains"})
        out.append({"program": two + f"pay(X) :- X = #sum {{ {e1.replace(', works(P,D)', '')} ; {e2.replace(', works(P,D)', '')} }}.", "tag": "y-sumchains-two-elements-flat", "trait": "sum_chains"})
    # tuple terms that hide the group variable inside arithmetic, weights that are fixed from outside
    amo = "{ p(G,V) : d(G,V) } 1 :- g(G).\n"
    for t in ("G/2", "G*0", "|G|", "G+1", "f(G)", "f(G/2)", "-G"):
        out.append({"program": amo + f"t(X) :- X = #sum {{ V,{t} : p(G,V) }}.", "tag": f"y-sumchains-tuple-term:{t}", "trait": "sum_chains"})
        out.append({"program": amo + f":~ p(G,V). [V@1,{t}]", "tag": f"y-sumchains-tuple-term-objective:{t}", "trait": "sum_chains", "out": [["p", 2]]})
    for rest in ("q(V)", "q(V), V > 2", "q(G)", "q(V), not s(V)", "r(V,X)"):
        out.append({"program": amo + f"t(X) :- X = #sum {{ V,G : p(G,V) }}, {rest}.", "tag": f"y-sumchains-weight-outside:{rest}", "trait": "sum_chains"})
    # an anonymous variable at a group position of an atom inside a body aggregate
    out.append({"program": "{ shift(D,L,K) : pshift(D,L) } 1 :- day(D), kind(D,K).\ntot(X) :- X = #sum { L,D : shift(D,L,_) }.", "tag": "y-sumchains-anon-third", "trait": "sum_chains"})
    out.append({"program": "{ shift(D,L,K) : pshift(D,L) } 1 :- day(D), kind(D,K).\ntot(D,X) :- day(D), X = #sum { L : shift(D,L,_) }.", "tag": "y-sumchains-anon-third", "trait": "sum_chains"})
    # at-most-one choices without a computable domain
    out.append({"program": "{ at(T,P) : place(P) } 1 :- time(T), alive(T).\nalive(0).\nalive(T+1) :- at(T,P), safe(P), time(T).\ncost(X) :- X = #sum { P,T : at(T,P) }.", "tag": "y-sumchains-no-domain", "trait": "sum_chains", "in": [["place", 1], ["time", 1], ["safe", 1]]})
    out.append({"program": "{ on(X) : c(X) }.\n{ at(T,P) : place(P) } 1 :- time(T), 1 <= #count { X : on(X) }.\n:~ at(T,P). [P@1,T]", "tag": "y-sumchains-no-domain", "trait": "sum_chains", "in": [["place", 1], ["time", 1], ["c", 1]]})
    return out


def _math():
    out = []
    base = "{ sel(V) } :- p(V).\n"
    # two comparisons over the value of one aggregate, in both orders and with the value on either side
    cmps = [
        ("1 <= X", "Y > X"), ("Y > X", "1 <= X"), ("X != 0", "Y != X"), ("X >= 1", "X < Y"), ("0 < X", "X <= Y"), ("Y >= X", "X > 1"),
        ("X = Y", "X != 2"), ("Y < X", "3 >= X"), ("2 != X", "Y = X"),
    ]
    for (c1, c2), fn in itertools.product(cmps, ("#sum", "#count")):
        el = "V : sel(V)" if fn == "#sum" else "V : sel(V)"
        out.append({"program": base + f"a(Y) :- r(Y), X = {fn} {{ {el} }}, {c1}, {c2}.", "tag": "y-math-two-bounds", "trait": "math", "in": [["p", 1], ["r", 1]]})
        out.append({"program": base + f":- r(Y), X = {fn} {{ {el} }}, {c1}, {c2}.", "tag": "y-math-two-bounds-constraint", "trait": "math", "in": [["p", 1], ["r", 1]], "out": [["sel", 1]]})
    # a #min/#max next to a #sum in one arithmetic relation, in every position
    for rel in ("X+Y = N", "Y+X = N", "X < Y", "Y < X", "N = Y-X", "X-Y > 0", "2*X = Y"):
        for fn in ("#max", "#min"):
            out.append({"program": "{ q(V,T) } :- dq(V,T).\n{ p(W) } :- dp(W).\n" + f"ok(N) :- n(N), Y = #sum {{ V,T : q(V,T) }}, X = {fn} {{ W : p(W) }}, {rel}.", "tag": "y-math-minmax-with-sum", "trait": "math", "in": [["dq", 2], ["dp", 1], ["n", 1]]})
            out.append({"program": "{ q(V,T) } :- dq(V,T).\n{ p(W) } :- dp(W).\n" + f"ok(N) :- n(N), X = {fn} {{ W : p(W) }}, Y = #sum {{ V,T : q(V,T) }}, {rel}.", "tag": "y-math-minmax-with-sum-rev", "trait": "math", "in": [["dq", 2], ["dp", 1], ["n", 1]]})
    # priority / weight / tuple of an objective given by an equality
    for obj in ("[1@L+1,T]", "[1@P,T]", "[P@1,T]", "[1@1,T,P]", "[L+1@1,T]"):
        out.append({"program": "{ late(T) } :- task(T).\n" + f":~ late(T), level(T,L), P = L+1. {obj}", "tag": "y-math-objective-defined-by-equality", "trait": "math", "in": [["task", 1], ["level", 2]], "out": [["late", 1]]})
        out.append({"program": "{ late(T) } :- task(T).\n" + f":~ late(T), level(T,L), L = P-1. {obj}", "tag": "y-math-objective-defined-by-equality", "trait": "math", "in": [["task", 1], ["level", 2]], "out": [["late", 1]]})
    return out


def _inline():
    out = []
    # a local variable of the helper has the name of a global variable of the using rule that is not in the aggregate
    for loc in ("I", "J", "T", "V"):
        out.append({"program": f"{{ sel(G) }} :- grp(G).\nh(G,S) :- sel(G), S = #sum {{ W,{loc} : item(G,{loc},W) }}.\ntot(I,T) :- slot(I), T = #sum {{ F,V : h(V,F) }}.", "tag": f"y-inline-local-vs-global:{loc}", "trait": "inline", "in": [["grp", 1], ["item", 3], ["slot", 1]], "out": [["tot", 2], ["sel", 1]]})
        out.append({"program": f"{{ sel(G) }} :- grp(G).\nh(G,S) :- sel(G), S = #sum {{ W,{loc} : item(G,{loc},W) }}.\ntot(I,T) :- slot(I), T = #sum {{ F,V : h(V,F) ; 1,I,x : extra(I) }}.", "tag": f"y-inline-local-vs-global-2:{loc}", "trait": "inline", "in": [["grp", 1], ["item", 3], ["slot", 1], ["extra", 1]], "out": [["tot", 2], ["sel", 1]]})
    # helpers used under double negation / negation, also recursively through the using rule
    for sign in ("not not ", "not ", ""):
        out.append({"program": f"on(X) :- auto(X), {sign}h(N), N = #count {{ Y : need(Y) }}.\nh(N) :- N = #count {{ X : on(X) }}.", "tag": f"y-inline-signed-use-recursive:{sign.strip() or 'pos'}", "trait": "inline", "in": [["auto", 1], ["need", 1]], "out": [["on", 1]]})
        out.append({"program": f"{{ on(X) }} :- auto(X).\nok :- {sign}h(N), N = #count {{ Y : need(Y) }}.\nh(N) :- N = #count {{ X : on(X) }}.", "tag": f"y-inline-signed-use:{sign.strip() or 'pos'}", "trait": "inline", "in": [["auto", 1], ["need", 1]], "out": [["on", 1], ["ok", 0]]})
    # several objectives whose weights are aggregates: every unfolded one needs its own padding
    for second in (":~ d(Y), C = #sum { W : q(Y,W) }. [C@1,Y]", ":~ C = #sum { W,Y : q(Y,W) }. [C@1]", ":~ d(Y), C = #count { W : q(Y,W) }. [C@1,Y]", ":~ C = #sum { W,Y : q(Y,W) }. [C@2]"):
        out.append({"program": "{ p(X,W) } :- pp(X,W).\n{ q(X,W) } :- qq(X,W).\n:~ C = #sum { W,X : p(X,W) }. [C@1]\n" + second, "tag": "y-inline-two-aggregate-objectives", "trait": "inline", "in": [["pp", 2], ["qq", 2], ["d", 1]], "out": [["p", 2], ["q", 2]]})
    # two objectives with one tuple, one of them with an aggregate as weight
    for w2 in (":~ fee(C). [C@1]", ":~ fee(D). [D@1]", ":~ fee(C). [C@2]"):
        out.append({"program": "{ take(I,W) } :- item(I,W).\n:~ C = #sum { W,I : take(I,W) }. [C@1]\n" + w2, "tag": "y-inline-objective-same-tuple", "trait": "inline", "in": [["item", 2], ["fee", 1]], "out": [["take", 2]]})
    return out


def _unused():
    out = []
    # an input predicate that also has a rule and that nobody reads
    out.append({"program": "closed(X) :- door(X), not open(X).\n{ open(X) } :- door(X).", "tag": "y-unused-input-derived-unread", "trait": "unused", "in": [["door", 1], ["closed", 1]], "out": [["open", 1]]})
    out.append({"program": "link(X,Y) :- link(Y,X).\n{ open(X) } :- door(X).", "tag": "y-unused-input-derived-unread", "trait": "unused", "in": [["door", 1], ["link", 2]], "out": [["open", 1]]})
    # chains of copies written top-down, bottom-up and mixed
    chains = ["a(X) :- b(X).\nb(X) :- c(X).\nc(X) :- e(X).", "c(X) :- e(X).\nb(X) :- c(X).\na(X) :- b(X).", "b(X) :- c(X).\na(X) :- b(X).\nc(X) :- e(X)."]
    uses = ["q(X) :- a(X), t(X).", ":- a(X), not t(X).", ":~ a(X). [1@1,X]", "{ q(X) } :- a(X).\n:- q(X), not a(X)."]
    for c, u in itertools.product(chains, uses):
        out.append({"program": c + "\n" + u, "tag": "y-unused-copy-chain-order", "trait": "unused", "in": [["e", 1], ["t", 1]], "out": [["q", 1]]})
    # head aggregates with explicit tuples whose atom has a position that is only read anonymously
    for bound in ("2 =", "1 <=", "2 >="):
        out.append({"program": f"{bound} #count {{ W : assign(T,W) : worker(W) }} :- task(T).\nstaffed(T) :- assign(T,_).", "tag": "y-unused-headagg-tuple", "trait": "unused", "in": [["task", 1], ["worker", 1]], "out": [["staffed", 1]]})
        out.append({"program": f"{bound} #sum {{ 1,W : assign(T,W) : worker(W) }} :- task(T).\nstaffed(T) :- assign(T,_).", "tag": "y-unused-headagg-tuple", "trait": "unused", "in": [["task", 1], ["worker", 1]], "out": [["staffed", 1]]})
    return out


def _symmetry():
    out = []
    choice = "{ match(M,W) : man(M), woman(W) }.\n"
    popular = ":- #count { W : match(M1,W), match(M2,W), match(M3,W), M1 != M2, M1 != M3, M2 != M3 } >= 2.\n"
    busy = ":- #count { M : match(M,W1), match(M,W2), W1 != W2 } >= 2.\n"
    for k in (1, 2):
        for arity_args in ("W", "M,W", "W,M,x"):
            alone = f"__aux_{k}({arity_args}) :- woman(W), man(M), not match(M,W).\n:- #count {{ W : __aux_{k}({arity_args}) }} >= 2.\n"
            out.append({"program": choice + alone + popular, "tag": "y-symmetry-aux-in-source", "trait": "symmetry", "in": [["man", 1], ["woman", 1]], "out": [["match", 2]]})
            out.append({"program": choice + alone + busy + popular, "tag": "y-symmetry-aux-in-source-2", "trait": "symmetry", "in": [["man", 1], ["woman", 1]], "out": [["match", 2]]})
    # one != position and one < position in one join (must not be counted), ties in one of the two
    for cmp2 in ("T1 > T2", "T1 < T2", "T1 != T2", "T1 >= T2"):
        out.append({"program": f"far(X) :- stop(X), at(L1,X,T1), at(L2,X,T2), L1 != L2, {cmp2}.", "tag": f"y-symmetry-mixed-comparisons:{cmp2}", "trait": "symmetry", "in": [["stop", 1], ["at", 3]]})
        out.append({"program": f":- at(L1,X,T1), at(L2,X,T2), L1 != L2, {cmp2}.\n{{ at(L,X,T) }} :- cand(L,X,T).", "tag": f"y-symmetry-mixed-comparisons-c:{cmp2}", "trait": "symmetry", "in": [["cand", 3]]})
    # the joined predicate is an input that is also derived from a chosen predicate
    out.append({"program": "{ pick(X,Y) } :- item(X), opt(Y).\nassigned(X,Y) :- pick(X,Y).\n:- assigned(X,Y1), assigned(X,Y2), Y1 != Y2.", "tag": "y-symmetry-input-derived", "trait": "symmetry", "in": [["item", 1], ["opt", 1], ["assigned", 2]], "out": [["pick", 2]]})
    out.append({"program": "{ pick(X,Y) } :- item(X), opt(Y).\nassigned(X,Y) :- pick(X,Y).\nbad(X) :- assigned(X,Y1), assigned(X,Y2), Y1 < Y2.", "tag": "y-symmetry-input-derived", "trait": "symmetry", "in": [["item", 1], ["opt", 1], ["assigned", 2]], "out": [["pick", 2], ["bad", 1]]})
    return out


def _robust():
    out = []
    # theory atoms in heads, with elements
    th = "#theory dl { t { + : 1, binary, left; - : 1, binary, left; - : 2, unary }; &diff/0 : t, {<=}, t, head; &sum/0 : t, {<=}, t, any }.\n"
    out.append({"program": th + "&diff { start(A)-start(B) } <= 0-D :- before(A,B), dur(A,D).", "tag": "y-robust-theory-head", "trait": "robust"})
    out.append({"program": th + "{ pick(T) } :- dur(T,_).\n&sum { D,T : dur(T,D), pick(T) } <= B :- budget(B).", "tag": "y-robust-theory-head", "trait": "robust"})
    out.append({"program": th + "task(a). task(b).\n&diff { start(A)-start(B) } <= 0-1 :- task(A), task(B), A < B.", "tag": "y-robust-theory-head", "trait": "robust"})
    return out


def programs():
    return _projection() + _minmax() + _cleanup() + _duplication() + _sumchains() + _math() + _inline() + _unused() + _symmetry() + _robust()
