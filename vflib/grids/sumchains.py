"""Grid for the sum_chains pass (ngo/sum_aggregates.py, property C13).

Every program = one "evidence" rule that may or may not establish "at most one shift(D,L) per D" + one or
more "use" statements that take the value L of shift as a weight.  Spanned side conditions:
* evidence (SumAggregator._calc_at_most_on_rule / AggAnalytics.guaranteed_leq): choice rule or #sum/#count head;
  upper bound written `<= 1`, `< 2`, `= 1`, `1 >=` (left), `2 >`, both guards, bound 2 / `< 3` / no bound / lower
  bound only (must not qualify); element tuple `1,L` / `1` (no local variable: the bound does not count atoms) /
  `2,L` / `0,L` / `-1,L` / `L,L`; extra elements over a second predicate with weight 1 / 0 / -1, non-atom
  literals, two elements over the same predicate; element conditions with comparison; global variable used only in
  the element condition, non-injective or constant group term, no local variable at all (assert), empty body;
  predicate derived by a second rule / a fact / a second choice / listed in `in` (must not qualify);
  non-static and recursive (no domain) element conditions.
* uses (_element_passes, _get_trigger, _get_var, _replace_optimize): #sum / #sum+ / #count body aggregates with
  guards `X =`, `>`, `>=`, negated; weight variable once / twice (tuple, comparison); weight not a plain variable;
  group variable in tuple / global in body / local and not in the tuple (ties between groups) / anonymous;
  further literals in the condition; sibling elements that unify / do not unify (length, functor, constant);
  :~ / #minimize / #maximize with + and - sign, priorities, variable priority, conditional literal before/after,
  sibling objectives that unify / do not unify (priority, length, functor), two replaced objectives, aggregate
  inside a weak constraint; arity-3 predicate with anonymous / named third argument; positions that make
  `assert trigger_index is not None` fail (tags ASSERT-*); classically negated atoms in heads / uses.
Input domains day/1, len/1, pl/2 are instance predicates (per-group domains, ties, negatives)."""
import itertools

U_DAY = "a(D,X) :- X = #sum { L : shift(D,L) }, day(D)."
U_TOT = "a(X) :- X = #sum { L,D : shift(D,L) }."
O_MIN = ":~ shift(D,L). [L@0,D]"
O_MAX = "#maximize { L@1,D : shift(D,L) }."


def _choice_evidence():
    """(tag, [lines], extra) for choice-rule evidence"""
    ev = []
    elem = "shift(D,L) : len(L)"
    # --- how the bound is written
    ev.append(("ch-le1", ["{ %s } 1 :- day(D)." % elem]))
    ev.append(("ch-le1-pergroup-dom", ["{ shift(D,L) : pl(D,L) } 1 :- day(D)."]))
    ev.append(("ch-lt2", ["{ %s } < 2 :- day(D)." % elem]))
    ev.append(("ch-eq1", ["{ %s } = 1 :- day(D)." % elem]))
    ev.append(("ch-left-2gt", ["2 > { %s } :- day(D)." % elem]))
    ev.append(("ch-both-0-1", ["0 { %s } 1 :- day(D)." % elem]))
    ev.append(("ch-both-1-1", ["1 { shift(D,L) : pl(D,L) } 1 :- day(D)."]))
    ev.append(("ch-both-le2-le1", ["2 >= { %s } <= 1 :- day(D)." % elem]))
    ev.append(("ch-NOT-le2", ["{ %s } 2 :- day(D)." % elem]))
    ev.append(("ch-NOT-lt3", ["{ %s } < 3 :- day(D)." % elem]))
    ev.append(("ch-NOT-unbounded", ["{ %s } :- day(D)." % elem]))
    ev.append(("ch-NOT-lower-only", ["1 { shift(D,L) : pl(D,L) } :- day(D)."]))
    ev.append(("ch-NOT-neq2", ["{ %s } != 2 :- day(D)." % elem]))
    ev.append(("ch-NOT-both-1-2", ["1 { shift(D,L) : pl(D,L) } 2 :- day(D)."]))
    # --- shape of element / atom / body
    ev.append(("ch-cond-comparison", ["{ shift(D,L) : len(L), L > D } 1 :- day(D)."]))
    ev.append(("ch-atom-arith-local", ["{ shift(D,L+1) : len(L) } 1 :- day(D)."]))
    ev.append(("ch-atom-arith-global", ["{ shift(D+1,L) : len(L) } 1 :- day(D)."]))
    ev.append(("ch-body-extra-global", ["{ %s } 1 :- day(D), day(E), E > D." % elem]))
    ev.append(("ch-empty-body-all-local", ["{ shift(D,L) : day(D), len(L) } 1."]))
    ev.append(("ch-two-preds", ["{ %s; other(D) } 1 :- day(D)." % elem]))
    ev.append(("ch-two-elems-same-pred", ["{ %s; shift(D,L+1) : len(L) } 1 :- day(D)." % elem]))
    ev.append(("ch-neg-body", ["{ skip(D) } :- day(D).", "{ %s } 1 :- day(D), not skip(D)." % elem]))
    ev.append(("ch-nonstatic-dom", ["{ lsel(L) } :- len(L).", "{ shift(D,L) : lsel(L) } 1 :- day(D)."]))
    # --- at most one is NOT enforced although the rule looks like it
    ev.append(("ch-BAD-global-only-in-cond", ["{ shift(D,L) : len(L), L != P } 1 :- day(D), len(P)."]))
    ev.append(("ch-BAD-global-only-in-cond2", ["{ shift(D,L) : pl(P,L) } 1 :- day(D), day(P)."]))
    ev.append(("ch-BAD-noninjective-group", ["{ shift(D/2,L) : pl(D,L) } 1 :- day(D)."]))
    ev.append(("ch-BAD-constant-group", ["{ shift(1,L) : pl(D,L) } 1 :- day(D)."]))
    # --- no local variable in the atom (trips the assertion)
    ev.append(("ch-ASSERT-no-local", ["{ shift(D,L) } 1 :- day(D), len(L)."]))
    ev.append(("ch-ASSERT-interval", ["{ shift(D,1..3) } 1 :- day(D)."]))
    return ev


def _head_evidence():
    ev = []
    tuples = [("1L", "1,L"), ("1", "1"), ("2L", "2,L"), ("0L", "0,L"), ("m1L", "-1,L"), ("LL", "L,L")]
    bounds = [("le1", "%s <= 1"), ("lt2", "%s < 2"), ("eq1", "%s = 1"), ("left1ge", "1 >= %s"), ("NOT-le2", "%s <= 2")]
    for (tn, t), (bn, b) in itertools.product(tuples, bounds):
        agg = "#sum { %s : shift(D,L) : len(L) }" % t
        ev.append(("hs-sum-%s-%s" % (tn, bn), [(b % agg) + " :- day(D)."]))
    for (tn, t), (bn, b) in itertools.product(tuples, [bounds[0], bounds[4]]):
        agg = "#count { %s : shift(D,L) : pl(D,L) }" % t
        ev.append(("hs-count-%s-%s" % (tn, bn), [(b % agg) + " :- day(D)."]))
    # several elements
    for fun in ("#sum", "#count"):
        for wn, w in (("p1", "1"), ("zero", "0"), ("m1", "-1"), ("m2", "-2")):
            ev.append(("hs-%s-second-pred-w%s" % (fun[1:], wn),
                       ["%s { 1,L : shift(D,L) : len(L); %s,x : extra(D) : day(D) } <= 1 :- day(D)." % (fun, w)]))
    ev.append(("hs-sum-second-elem-notnot", ["#sum { 1,L : shift(D,L) : len(L); 1,L,x : not not shift(D,L) : len(L) } <= 1 :- day(D)."]))
    ev.append(("hs-sum-second-elem-comparison", ["#sum { 1,L : shift(D,L) : len(L); 1,L,x : L > 1 : len(L) } <= 1 :- day(D)."]))
    ev.append(("hs-sum-second-elem-comparison-m1", ["#sum { 1,L : shift(D,L) : len(L); -1,L,x : L > 1 : len(L) } <= 1 :- day(D)."]))
    ev.append(("hs-sum-two-elems-same-pred", ["#sum { 1,L : shift(D,L) : len(L); 1,L,b : shift(D,L) : pl(D,L) } <= 1 :- day(D)."]))
    ev.append(("hs-sum-varweight-second", ["#sum { 1,L : shift(D,L) : len(L); W,x : extra(D) : pl(D,W) } <= 1 :- day(D)."]))
    ev.append(("hs-sum-1L-global-only-in-cond", ["#sum { 1,L : shift(D,L) : len(L), L != P } <= 1 :- day(D), len(P)."]))
    ev.append(("hs-sum-1L-no-local", ["#sum { 1,L : shift(D,L) } <= 1 :- day(D), len(L)."]))
    ev.append(("hs-max-le1", ["#max { 1,L : shift(D,L) : len(L) } <= 1 :- day(D)."]))
    return ev


def _second_derivation():
    base = "{ shift(D,L) : len(L) } 1 :- day(D)."
    return [
        ("second-rule", [base, "shift(D,L) :- fix(D,L)."], None),
        ("second-fact", [base, "shift(1,2).", "shift(1,3)."], None),
        ("second-choice", [base, "{ shift(D,L) : pl(D,L) } 1 :- day(D)."], None),
        ("second-disjunction", [base, "shift(D,L) ; free(D) :- fix(D,L)."], None),
        ("listed-in", [base], [["shift", 2]]),
        ("listed-in-head-sum", ["#sum { 1,L : shift(D,L) : len(L) } <= 1 :- day(D)."], [["shift", 2]]),
    ]


def _agg_uses():
    """(tag, [lines]) body-aggregate uses of shift(D,L)"""
    u = []
    u.append(("sum-total-group-in-tuple", [U_TOT]))
    u.append(("sum-per-group-global", [U_DAY]))
    u.append(("sum-group-local-not-in-tuple", ["a(X) :- X = #sum { L : shift(D,L) }."]))
    u.append(("sum-anon-group", ["a(X) :- X = #sum { L : shift(_,L) }."]))
    u.append(("sum-anon-group-extra-term", ["a(X) :- X = #sum { L,t : shift(_,L) }."]))
    u.append(("sumplus-total", ["a(X) :- X = #sum+ { L,D : shift(D,L) }."]))
    u.append(("sumplus-per-group", ["a(D,X) :- X = #sum+ { L : shift(D,L) }, day(D)."]))
    u.append(("count-not-sum", ["a(X) :- X = #count { L,D : shift(D,L) }."]))
    u.append(("sum-other-literal", ["a(X) :- X = #sum { L,D : shift(D,L), day(D) }."]))
    u.append(("sum-other-literal-first", ["a(X) :- X = #sum { L,D : day(D), shift(D,L) }."]))
    u.append(("sum-other-literal-negative", ["{ skip(D) } :- day(D).", "a(X) :- X = #sum { L,D : shift(D,L), not skip(D) }."]))
    u.append(("sum-weight-twice-comparison", ["a(X) :- X = #sum { L,D : shift(D,L), L > 0 }."]))
    u.append(("sum-weight-twice-tuple", ["a(X) :- X = #sum { L,L,D : shift(D,L) }."]))
    u.append(("sum-weight-twice-domain-literal", ["a(X) :- X = #sum { L,D : shift(D,L), len(L) }."]))
    u.append(("sum-weight-twice-second-shift", ["a(X) :- X = #sum { L,D,E : shift(D,L), shift(E,L), D < E }."]))
    u.append(("sum-weight-product", ["a(X) :- X = #sum { 2*L,D : shift(D,L) }."]))
    u.append(("sum-weight-negated", ["a(X) :- X = #sum { -L,D : shift(D,L) }."]))
    u.append(("sum-weight-constant", ["a(X) :- X = #sum { 1,D,L : shift(D,L) }."]))
    u.append(("sum-weight-is-group-var", ["a(X) :- X = #sum { D,L : shift(D,L) }."]))
    u.append(("ASSERT-weight-group-var-anon-value", ["a(X) :- X = #sum { D : shift(D,_) }."]))
    u.append(("ASSERT-weight-from-other-literal", ["a(X) :- X = #sum { W,D : shift(D,_), pl(D,W) }."]))
    u.append(("sum-two-shift-literals-trigger-first", ["a(X) :- X = #sum { L,D : shift(D,L), shift(D,_) }."]))
    u.append(("ASSERT-two-shift-literals-anon-first", ["a(X) :- X = #sum { L,D : shift(D,_), shift(D,L) }."]))
    u.append(("sum-value-named-not-weight", ["a(X) :- X = #sum { W,D,M : shift(D,M), pl(D,W) }."]))
    u.append(("ATTR-sum-constant-group", ["a(X) :- X = #sum { L : shift(1,L) }."]))
    u.append(("ATTR-sum-arith-group", ["a(X) :- X = #sum { L,D : shift(D+0,L), day(D) }."]))
    # sibling elements
    u.append(("sibling-unifies-const", ["a(X) :- X = #sum { L,D : shift(D,L); 1,a : day(_) }."]))
    u.append(("sibling-unifies-var", ["a(X) :- X = #sum { L,D : shift(D,L); M,E : pl(E,M) }."]))
    u.append(("sibling-not-unify-length", ["a(X) :- X = #sum { L,D : shift(D,L); 1,a,b : day(_) }."]))
    u.append(("sibling-not-unify-functor", ["a(X) :- X = #sum { L,f(D) : shift(D,L); M,g(E) : pl(E,M) }."]))
    u.append(("sibling-not-unify-constant", ["a(X) :- X = #sum { L,D,p : shift(D,L); M,E,q : pl(E,M) }."]))
    u.append(("sibling-both-shift-not-unify", ["a(X) :- X = #sum { L,D,p : shift(D,L); L,D,q : shift(D,L), D > 1 }."]))
    u.append(("sibling-both-shift-unify", ["a(X) :- X = #sum { L,D : shift(D,L); L,D : shift(D,L), D > 1 }."]))
    # guards / position of the aggregate
    u.append(("guard-gt-constraint", [":- #sum { L,D : shift(D,L) } > 3."]))
    u.append(("guard-ge-rule", ["a :- #sum { L,D : shift(D,L) } >= 2."]))
    u.append(("guard-negated", ["a :- not #sum { L,D : shift(D,L) } >= 2."]))
    u.append(("guard-both-per-group", ["a(D) :- 1 <= #sum { L : shift(D,L) } <= 2, day(D)."]))
    u.append(("guard-left-eq-plus-literal", ["a(D,X) :- day(D), X = #sum { L : shift(D,L) }, X > 0."]))
    u.append(("two-rules-use", [U_TOT, "b(D,X) :- X = #sum { L : shift(D,L) }, day(D)."]))
    u.append(("two-aggregates-one-body", ["a(X,Y) :- X = #sum { L,D : shift(D,L) }, Y = #sum+ { L,D : shift(D,L) }."]))
    u.append(("agg-in-weak-constraint", [":~ X = #sum { L,D : shift(D,L) }. [X@1]"]))
    u.append(("agg-in-weak-constraint-per-group", [":~ day(D), X = #sum { L : shift(D,L) }. [X@1,D]"]))
    return u


def _obj_uses():
    u = []
    u.append(("obj-weak", [O_MIN]))
    u.append(("obj-minimize", ["#minimize { L,D : shift(D,L) }."]))
    u.append(("obj-maximize", ["#maximize { L,D : shift(D,L) }."]))
    u.append(("obj-weak-minus", [":~ shift(D,L). [-L@0,D]"]))
    u.append(("obj-priority-2", [":~ shift(D,L). [L@2,D]"]))
    u.append(("obj-priority-variable", [":~ shift(D,L). [L@D]"]))
    u.append(("obj-group-not-in-tuple", [":~ shift(D,L). [L@0]"]))
    u.append(("obj-group-not-in-tuple-max", ["#maximize { L : shift(D,L) }."]))
    u.append(("obj-anon-group", [":~ shift(_,L). [L@0]"]))
    u.append(("obj-anon-group-minus", [":~ shift(_,L). [-L@0,t]"]))
    u.append(("ATTR-obj-constant-group", [":~ shift(1,L). [L@0]"]))
    u.append(("ATTR-obj-arith-group", [":~ shift(D+0,L), day(D). [L@0,D]"]))
    u.append(("obj-other-literal", [":~ shift(D,L), day(D). [L@1,D]"]))
    u.append(("obj-other-literal-negative", ["{ skip(D) } :- day(D).", ":~ shift(D,L), not skip(D). [L@0,D]"]))
    u.append(("obj-weight-twice-tuple", [":~ shift(D,L). [L@0,D,L]"]))
    u.append(("obj-weight-twice-comparison", [":~ shift(D,L), L > 1. [L@0,D]"]))
    u.append(("obj-weight-twice-priority", [":~ shift(D,L). [L@L,D]"]))
    u.append(("obj-weight-product", [":~ shift(D,L). [2*L@0,D]"]))
    u.append(("obj-weight-plus-one", [":~ shift(D,L). [L+1@0,D]"]))
    u.append(("obj-weight-double-minus", [":~ shift(D,L). [-(-L)@0,D]"]))
    u.append(("obj-weight-constant", [":~ shift(D,L). [1@0,D,L]"]))
    u.append(("obj-weight-is-group-var", [":~ shift(D,L). [D@0,L]"]))
    u.append(("ASSERT-obj-weight-group-var-anon-value", [":~ shift(D,_). [D@0]"]))
    u.append(("ASSERT-obj-weight-from-other-literal", [":~ shift(D,_), pl(D,W). [W@0,D]"]))
    u.append(("ASSERT-obj-negative-anon-literal-first", [":~ not shift(E,_), day(E), shift(D,L). [L@0,D,E]"]))
    u.append(("obj-negative-shift-literal-after", [":~ shift(D,L), day(E), not shift(E,_). [L@0,D,E]"]))
    u.append(("obj-conditional-before", [":~ ok(E) : day(E); shift(D,L). [L@0,D]"]))
    u.append(("obj-conditional-after", [":~ shift(D,L); ok(E) : day(E). [L@0,D]"]))
    # sibling objectives
    u.append(("objsib-unifies", [O_MIN, ":~ day(D). [1@0,D]"]))
    u.append(("objsib-unifies-var-weight", [O_MIN, ":~ pl(D,W). [W@0,D]"]))
    u.append(("objsib-unifies-both-shift", [O_MIN, ":~ shift(D,L), D > 1. [L@0,D]"]))
    u.append(("objsib-identical-twice", [O_MIN, O_MIN]))
    u.append(("objsib-not-unify-priority", [O_MIN, ":~ day(D). [1@1,D]"]))
    u.append(("objsib-not-unify-length", [O_MIN, ":~ day(D). [1@0,D,x]"]))
    u.append(("objsib-not-unify-functor", [":~ shift(D,L). [L@0,f(D)]", ":~ pl(D,W). [W@0,g(D)]"]))
    u.append(("objsib-not-unify-constant", [":~ shift(D,L). [L@0,D,p]", ":~ pl(D,W). [W@0,D,q]"]))
    u.append(("objsib-two-replaced-priorities", [":~ shift(D,L). [L@1,D]", ":~ shift(D,L). [-L@2,D]"]))
    u.append(("objsib-min-and-max-same-priority", ["#minimize { L,D : shift(D,L) }.", "#maximize { L,D : shift(D,L) }."]))
    u.append(("obj-plus-agg-use", [O_MIN, U_DAY]))
    return u


def programs():
    out = []
    seen = set()

    def add(tag, lines, inn=None):
        text = "\n".join(lines) + "\n"
        if text in seen:
            return
        seen.add(text)
        rec = {"program": text, "tag": tag}
        if inn:
            rec["in"] = inn
        out.append(rec)

    choice = _choice_evidence()
    head = _head_evidence()
    second = _second_derivation()

    # 1. every evidence form x canonical uses (per-group sum; weak constraint; both signs for the choice forms)
    for tag, lines in choice:
        grp = "D"
        uses = [("agg", [U_DAY]), ("obj", [O_MIN]), ("max", [O_MAX])]
        if tag in ("ch-BAD-noninjective-group", "ch-BAD-constant-group", "ch-atom-arith-global"):
            uses = [("agg", ["a(X) :- X = #sum { L,G : shift(G,L) }."]), ("obj", [":~ shift(G,L). [L@0,G]"]),
                    ("max", ["#maximize { L@1,G : shift(G,L) }."])]
        if tag == "ch-empty-body-all-local":
            uses = [("agg", ["a(X) :- X = #sum { L : shift(_,L) }."]), ("obj", [":~ shift(_,L). [L@0]"]),
                    ("agg-named-group", [U_TOT]), ("obj-named-group", [O_MIN])]
        del grp
        if tag.startswith(("ch-NOT", "ch-ASSERT", "ch-two")):
            uses = uses[:2]
        for un, ul in uses:
            add("ev:%s/%s" % (tag, un), lines + ul)
    for tag, lines in head:
        add("ev:%s/agg" % tag, lines + [U_DAY])
        if "-1L-" in tag or "-1-" in tag or "second" in tag or "cond" in tag or "no-local" in tag:
            add("ev:%s/obj" % tag, lines + [O_MIN])
    for tag, lines, inn in second:
        add("ev:%s/agg" % tag, lines + [U_DAY], inn)
        add("ev:%s/obj" % tag, lines + [O_MIN], inn)

    # 2. every use form x two sound evidences (shared domain len/1; per-group domain pl/2) + one head-#sum evidence
    sound = [
        ("len", ["{ shift(D,L) : len(L) } 1 :- day(D)."]),
        ("pl", ["{ shift(D,L) : pl(D,L) } 1 :- day(D)."]),
    ]
    hs = ("hsum", ["#sum { 1,L : shift(D,L) : len(L) } <= 1 :- day(D)."])
    agg_uses = _agg_uses()
    obj_uses = _obj_uses()
    for (en, el), (tag, ul) in itertools.product(sound, agg_uses + obj_uses):
        add("use:%s/%s" % (tag, en), el + ul)
    for tag, ul in agg_uses[:6] + obj_uses[:4] + obj_uses[6:7]:
        add("use:%s/%s" % (tag, hs[0]), hs[1] + ul)

    # 3. arity 3: two local positions, third argument anonymous / named / constant
    ev3 = [
        ("a3-two-locals", "{ shift(D,L,K) : len(L), kind(K) } 1 :- day(D)."),
        ("a3-const-third", "{ shift(D,L,k) : len(L) } 1 :- day(D)."),
        ("a3-global-third", "{ shift(D,L,K) : len(L) } 1 :- day(D), kind(K)."),
    ]
    use3 = [
        ("anon-third", "a(X) :- X = #sum { L,D : shift(D,L,_) }."),
        ("named-third-in-tuple", "a(X) :- X = #sum { L,D,K : shift(D,L,K) }."),
        ("named-third-not-in-tuple", "a(X) :- X = #sum { L,D : shift(D,L,K), kind(K) }."),
        ("obj-anon-third", ":~ shift(D,L,_). [L@0,D]"),
        ("obj-named-third", ":~ shift(D,L,K). [L@0,D,K]"),
        ("obj-anon-group-and-third", ":~ shift(_,L,_). [L@0]"),
    ]
    for (en, el), (un, ul) in itertools.product(ev3, use3):
        add("arity3:%s/%s" % (en, un), [el, ul])

    # 4. element-condition domains that are derived / recursive (domain computation of DomainPredicates)
    dom = [
        ("dom-derived-static", ["lenx(L) :- len(L), L > 0.", "{ shift(D,L) : lenx(L) } 1 :- day(D)."]),
        ("dom-derived-from-choice", ["{ lsel(L) } :- len(L).", "lenx(L+1) :- lsel(L).", "{ shift(D,L) : lenx(L) } 1 :- day(D)."]),
        ("dom-recursive-no-domain", ["reach(L) :- len(L).", "reach(L) :- reach(M), e(M,L).", "{ shift(D,L) : reach(L) } 1 :- day(D)."]),
        ("dom-negative-condition", ["{ shift(D,L) : len(L), not pl(D,L) } 1 :- day(D)."]),
        ("dom-aggregate-in-body", ["{ shift(D,L) : len(L) } 1 :- day(D), 1 <= #count { E : pl(D,E) }."]),
    ]
    for (tag, el), (un, ul) in itertools.product(dom, [("agg", [U_TOT]), ("obj", [O_MIN])]):
        add("%s/%s" % (tag, un), el + ul)

    # 5. domain values fixed by facts (negative / zero / positive; also given by the instance): #sum+ ignores
    #    negative weights, the chain differences are always positive
    negfacts = ["len(-2).", "len(0).", "len(3)."]
    fact_uses = [
        ("sum-total", U_TOT), ("sum-per-group", U_DAY), ("obj-min", O_MIN), ("obj-max", O_MAX),
        ("sumplus-total", "a(X) :- X = #sum+ { L,D : shift(D,L) }."),
        ("sumplus-per-group", "a(D,X) :- X = #sum+ { L : shift(D,L) }, day(D)."),
        ("sumplus-guard", "a(D) :- #sum+ { L : shift(D,L) } >= 4, day(D)."),
        ("sumplus-weight-twice", "a(X) :- X = #sum+ { L,D : shift(D,L), L < 9 }."),
    ]
    for (en, el), (un, ul) in itertools.product(
        [("ch", "{ shift(D,L) : len(L) } 1 :- day(D)."), ("hsum", "#sum { 1,L : shift(D,L) : len(L) } <= 1 :- day(D).")], fact_uses):
        if en == "hsum" and un not in ("sum-total", "obj-max", "sumplus-total", "sumplus-per-group"):
            continue
        add("negfacts:%s/%s" % (un, en), negfacts + [el, ul], [["len", 1]])
    for un, ul in (fact_uses[0], fact_uses[4]):  # bound 2: must not fire (two facts only: keeps the answer sets few)
        add("negfacts:%s/NOT-le2" % un, ["len(-2).", "len(3).", "{ shift(D,L) : len(L) } 2 :- day(D).", ul], [["len", 1]])

    # 6. group term of the choice atom is not injective in the rule's global variable (facts make two days collide)
    dayfacts = ["day(2).", "day(3).", "pl(2,1).", "pl(3,4)."]
    for gn, g in (("div2", "D/2"), ("times0", "D*0"), ("abs", "|D-2|")):
        for un, ul in (("agg", "a(G,X) :- X = #sum { L : shift(G,L) }, G = 0..2."), ("agg-total", "a(X) :- X = #sum { L,G : shift(G,L) }."),
                       ("obj", ":~ shift(G,L). [L@0,G]")):
            add("ev:ch-BAD-noninjective-%s-facts/%s" % (gn, un),
                dayfacts + ["{ shift(%s,L) : pl(D,L) } 1 :- day(D)." % g, ul], [["day", 1], ["pl", 2]])

    # 8. classically negated atoms: as choice head (DomainPredicates), as head of a further rule, only in the use
    for un, ul in (("agg", "a(D,X) :- X = #sum { L : -shift(D,L) }, day(D)."), ("obj", ":~ -shift(D,L). [L@0,D]")):
        add("classneg:choice-head/%s" % un, ["{ -shift(D,L) : len(L) } 1 :- day(D).", ul])
        add("classneg:other-rule-head/%s" % un, ["{ shift(D,L) : len(L) } 1 :- day(D).", "-shift(D,L) :- pl(D,L), not shift(D,L).", ul])
        add("classneg:use-only/%s" % un, ["{ shift(D,L) : len(L) } 1 :- day(D).", ul])
    add("classneg:other-rule-head/pos-use", ["{ shift(D,L) : len(L) } 1 :- day(D).", "-shift(D,L) :- pl(D,L), not shift(D,L).", U_DAY])

    # 7. at most one enforced by an integrity constraint only (not recognised: must not fire)
    for un, ul in (("agg", U_DAY), ("obj", O_MIN)):
        add("ev:constraint-enforced/%s" % un, ["{ shift(D,L) : len(L) } :- day(D).", ":- shift(D,L), shift(D,M), L < M.", ul])
    return out
