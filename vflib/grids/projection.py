"""Grid for the `projection` pass (ProjectionTranslator.good_split).

Side conditions spanned (firing side and near miss for each):
 * split size 1 < |new| < |body| (2-literal bodies, all-in-one bodies);
 * the auxiliary rule must be safe on its own (negative literals, comparisons, arithmetic arguments,
   intervals, bit operations, tuple equalities, aggregate guards whose variables are bound only in the
   other half -- this is where ngo's binding analysis and gringo's safety can disagree);
 * the remaining rule must stay safe given the exported variables;
 * a variable that is global in the rule must not become local to a conditional literal / aggregate of
   the auxiliary rule (and the mirrored case where it is local in the staying half);
 * the split must save a variable (|t ∪ vars(rest)| < |global|, |t| < |global(new)|, |t| < |head vars|):
   every occurrence pattern of 3/4-literal bodies over <= 4 variables with heads of 1..3 variables;
 * no literal may be left behind that introduces no new variable; rest needs a positive atom;
 * aggregates are not torn apart (aggregate in both halves);
 * head kinds: plain, choice (with/without condition and bounds), disjunction, #sum/#count head
   aggregates, integrity constraints and weak constraints (never split), arithmetic in the head;
 * recursive head predicate (positive, through negation, through aggregates / conditional literals);
 * name clashes with an existing __aux_N predicate, several split rules in one program.
"""
import itertools

CHOICE_V = "{ v(X) } :- dv(X)."


def _patterns(nlits, hsize, maxsub, minvars=3):
    """canonical (head-vars, body-literal-var-tuples) occurrence patterns over A..D"""
    vs = "ABCD"
    subs = [c for r in range(1, maxsub + 1) for c in itertools.combinations(vs, r)]
    seen = set()
    res = []
    for body in itertools.combinations(subs, nlits):
        bv = sorted(set(x for lit in body for x in lit))
        if len(bv) < minvars:
            continue
        for head in itertools.combinations(bv, hsize):
            best = None
            for perm in itertools.permutations(vs[: len(bv)]):
                m = dict(zip(bv, perm))
                h = tuple(sorted(m[x] for x in head))
                b = tuple(sorted(tuple(sorted(m[x] for x in lit)) for lit in body))
                if best is None or (h, b) < best:
                    best = (h, b)
            if best not in seen:
                seen.add(best)
                res.append(best)
    res.sort()
    return res


def _pattern_rule(head, body, neg=None, anon=False):
    lits = []
    for i, lit in enumerate(body):
        args = list(lit)
        if anon and i == 0:
            args = args + ["_"]
        txt = "p%d(%s)" % (i + 1, ",".join(args))
        if neg == i:
            txt = "not " + txt
        lits.append(txt)
    return "h(%s) :- %s." % (",".join(head), ", ".join(lits))


# ---------------------------------------------------------------------------------------------
# extras for the base rule   h(A,D) :- q(A,B), v(B), s(A,D).      (B is projected away, t = {A})
# new-side extras mention B (and maybe A), rest-side extras mention D, linking extras mention both
NEW_SIDE = [
    ("neg", "not w(B)"),
    ("neg-anon", "not w(B,_)"),
    ("cmp", "B > 0"),
    ("bindcmp", "Y = B+1, u(Y)"),
    ("bindcmp-neg", "Y = B+1, not u(Y)"),
    ("arith", "u(B+1)"),
    ("arith-mul", "u(B*2)"),
    ("arith-abs", "u(|B|)"),
    ("arith-minus", "u(-B)"),
    ("interval", "u(1..B)"),
    ("interval2", "Y = 1..B, u(Y)"),
    ("cond", "w(X) : u(X,B)"),
    ("cond-indep", "w(X) : u(X)"),
    ("cond-neg", "not w(X) : u(X,B)"),
    ("cond-head", "w(B,X) : u(X)"),
    ("cond-A", "w(X) : u(X,A)"),
    ("cond-bind", "w(Y) : u(X,B), Y = X+1"),
    ("count", "#count { X : u(X,B) } >= 1"),
    ("sum-assign", "N = #sum { X : u(X,B) }, z(N)"),
    ("sum-assign-neg", "N = #sum { X : u(X,B) }, not z(N)"),
    ("sum3", "#sum { X,Y : u(X,Y,B) } > 0"),
    ("not-count", "not #count { X : u(X,B) } >= 1"),
    ("min-guardA", "#min { X : u(X,B) } < A"),
    ("classical", "-w(B)"),
    ("flag", "flag"),
    ("notflag", "not flag"),
    ("tuple-eq", "(X,Y) = (B,A), w(X,Y)"),
    ("tuple-eq-r", "(B,A) = (X,Y), w(X,Y)"),
    ("fterm", "w(f(B))"),
    ("dup", "q(A,B)"),
    ("extra-var", "w(B,C), z(C)"),
]
REST_SIDE = [
    ("neg", "not w2(D)"),
    ("cmp", "D > 0"),
    ("cmp-ne", "D != A"),
    ("arith", "u2(D+1)"),
    ("cond", "w2(X) : u2(X,D)"),
    ("count", "#count { X : u2(X,D) } >= 1"),
    ("sum-assign", "M = #sum { X : u2(X,D) }, z2(M)"),
    ("neg-anon", "not w2(D,_)"),
    ("bindcmp", "Z = D+1, u2(Z)"),
]
LINKING = [
    ("cmp", "B < D"),
    ("neg", "not w(B,D)"),
    ("pos", "w(B,D)"),
    ("cond", "w(X) : u(X,B,D)"),
    ("cond-lit", "w(B,X) : u(X,D)"),
    ("count", "#count { X : u(X,B), u2(X,D) } >= 1"),
    ("arith", "u(B+D)"),
    ("bindcmp", "Y = B+D, u(Y)"),
    ("sum-guard", "#sum { X : u(X,B) } < D"),
    ("sum-assignD", "D = #sum { X : u(X,B) }"),
]

HEADS = [
    ("plain", "h(A,D)"),
    ("choice", "{ h(A,D) }"),
    ("choice-cond", "{ h(A,X) : d(X,D) }"),
    ("choice-bound", "1 { h(A,X) : d(X) } 1"),
    ("choice-guardD", "{ h(A,X) : d(X) } D"),
    ("disj", "h(A,D) ; g(A)"),
    ("disj-cond", "h(A,X) : d(X,D) ; g(A)"),
    ("sumhead", "#sum { W,X : h(A,X) : d(X,W) } D"),
    ("sumhead-lo", "1 #sum { W,X : h(A,X) : d(X,W) }"),
    ("counthead", "#count { X : h(A,X) : d(X,D) } 1"),
    ("head1", "h(A)"),
    ("headD", "h(D)"),
    ("head3", "h(A,D,B)"),
    ("head-arith", "h(A,D+1)"),
    ("head-arith2", "h(A+D,D)"),
]
HEAD_BODIES = [
    ("base", "q(A,B), v(B), s(A,D)"),
    ("cond", "q(A,B), w(X) : u(X,B); s(A,D)"),
    # (local Y, not X: clingo 5.8.2 mis-grounds a choice head and a body aggregate that share a local variable name)
    ("agg", "q(A,B), #count { Y : u(Y,B) } >= 1, s(A,D)"),
    ("five", "q(A,B,C), t(E), not w(B,E), s(A,D)"),
]

# arguments T in  h(A,D) :- q(B), w(B,T), s(A,D,X).   X is bound by s only; does w(B,T) "bind" X ?
BIND_ARGS = [
    "X", "1..X", "X..3", "X&1", "X?1", "X^1", "~X", "-X", "X+1", "1-X", "X*2", "2*X+1", "|X|",
    "X/2", "X/2+1", "-|X|", "|X|+1", "X*X+1", "f(X)", "X+B", "f(X+1)", "_",
]
# comparisons C in  h(A,D) :- q(B), v(B), C, s(A,D,X).
BIND_CMPS = [
    "X = B", "X != B", "not X != B", "not X = B", "X < B", "X+1 = B+1", "B+1 = X+1", "-X = B+1", "~X = B+1",
    "X&1 = B+1", "X/2+1 = B+1", "-|X| = B+1", "X*2 = B+B", "(X,1) = (B,1)", "(X,B) = (B,X)", "f(X) = f(B)", "X = 1..B", "B = 1..X",
    "B = |X|", "X = B+1", "B = X+1", "X+B = 2", "0 < X = B",
]
# aggregate literals G in  h(A,D) :- q(B), v(B), G, s(A,D,X).
BIND_AGGS = [
    "X = #count { Y : u(Y,B) }", "#count { Y : u(Y,B) } = X", "X != #count { Y : u(Y,B) }",
    "not X = #count { Y : u(Y,B) }", "X < #sum { Y : u(Y,B) }", "X = #sum { Y : u(Y,B) } = X",
    "X = #count { Y : u(Y,X) }", "X = #sum { Y : u(Y,B) ; 1,B : v(B) }", "X = { u(Y,B) }",
    "1 { u(Y,B) : v(Y) } X",
]


def programs():
    out = []
    seen = set()

    def add(text, tag, inn=None):
        text = text.strip()
        if text in seen:
            return
        seen.add(text)
        rec = {"program": text, "tag": tag}
        if inn:
            rec["in"] = inn
        out.append(rec)

    # ---- A. every occurrence pattern: 3-literal bodies, heads of 2 variables
    for head, body in _patterns(3, 2, 3):
        add(_pattern_rule(head, body), "pat3-h2")
    # 3-literal bodies with 1 / 3 head variables, every third / second pattern
    for k, (head, body) in enumerate(_patterns(3, 1, 3)):
        if k % 6 == 0:
            add(_pattern_rule(head, body), "pat3-h1")
    for k, (head, body) in enumerate(_patterns(3, 3, 3)):
        if k % 4 == 0:
            add(_pattern_rule(head, body), "pat3-h3")
    # bodies over two variables only
    for rule in [
        "h(A) :- p1(A), p2(B), p3(B).",
        "h(A) :- p1(A), p2(A,B), p3(B).",
        "h(A) :- p1(A,B), p2(A,B), p3(B).",
        "h(A,B) :- p1(A), p2(B), p3(A,B).",
        "h(A) :- p1(A), p2(B), p3(B), p4(B,B).",
    ]:
        add(rule, "pat-2vars")
    # 4-literal bodies (literals of <= 2 variables), sampled, with a negative literal or an anonymous column
    p4 = _patterns(4, 2, 2)
    for k, (head, body) in enumerate(p4):
        if k % 6 == 0:
            mode = (k // 6) % 3
            if mode == 0:
                add(_pattern_rule(head, body), "pat4-h2")
            elif mode == 1:
                # negate the last literal if the rest still binds its variables
                others = set(x for lit in body[:-1] for x in lit)
                neg = 3 if set(body[3]) <= others and set(head) <= others else None
                add(_pattern_rule(head, body, neg=neg), "pat4-h2-neg" if neg is not None else "pat4-h2")
            else:
                add(_pattern_rule(head, body, anon=True), "pat4-h2-anon")

    # ---- B. base rule with one extra literal on the projected side / staying side / linking both
    base = "h(A,D) :- q(A,B); v(B); %s; s(A,D)."
    for tag, lit in NEW_SIDE:
        add(CHOICE_V + "\n" + base % lit, "new-" + tag)
    for tag, lit in REST_SIDE:
        add(CHOICE_V + "\n" + base % lit, "rest-" + tag)
    for tag, lit in LINKING:
        add(CHOICE_V + "\n" + base % lit, "link-" + tag)
    # rest without a positive atom: D only comes from an aggregate / comparison
    add(CHOICE_V + "\nh(A,D) :- q(A,B), v(B), D = #count { X : u(X,A) }.", "rest-no-positive")
    add(CHOICE_V + "\nh(A,D) :- q(A,B), v(B), D = #count { X : u(X,A) }, not w2(D).", "rest-no-positive")
    add(CHOICE_V + "\nh(A,D) :- q(A,B), v(B), D = A+1.", "rest-no-positive")
    add(CHOICE_V + "\nh(A,D) :- q(A,B), v(B), D = 1..A.", "rest-no-positive")
    add(CHOICE_V + "\nh(A,D) :- q(A,B), v(B), D = #count { X : u(X,A) }, s(D).", "rest-positive-no-new-var")
    # too short bodies
    add(CHOICE_V + "\nh(A,D) :- q(A,B), s(A,D).", "short-body")
    add(CHOICE_V + "\nh(A,B) :- q(A,B), v(B).", "short-body")
    add(CHOICE_V + "\nh(A) :- q(A,B), v(B), w(B).", "all-in-new")

    # ---- C. pairs: one extra in each half (aggregates in both halves must not be torn apart)
    # (base with two projected variables B, C so that a staying conditional literal / aggregate alone still fires)
    base2 = "h(A,D) :- q(A,B,C); v(B); t(C); %s; s(A,D)."
    for tag, lit in REST_SIDE:
        if tag in ("cond", "count", "sum-assign"):
            add(CHOICE_V + "\n" + base2 % lit, "rest2-" + tag)
    new_sel = [x for x in NEW_SIDE if x[0] in ("neg", "bindcmp", "cond", "count", "sum-assign")]
    rest_sel = [x for x in REST_SIDE if x[0] in ("neg", "cmp", "cond", "count", "sum-assign")]
    for (tn, ln), (tr, lr) in itertools.product(new_sel, rest_sel):
        add(CHOICE_V + "\n" + base2 % (ln + "; " + lr), "pair-%s+%s" % (tn, tr))
    for lits, tag in [
        ("w(X) : u(X,B); w2(X) : u2(X,D)", "local-both"),
        ("w(X) : u(X,B); u2(X,D)", "local-new-global-rest"),
        ("u(X,B); w2(X) : u2(X,D)", "global-new-local-rest"),
        ("#count { X : u(X,B) } >= 1; u2(X,D)", "local-new-global-rest"),
        ("u(X,B); #count { X : u2(X,D) } >= 1", "global-new-local-rest"),
        ("w(X) : u(X); u2(X,D)", "local-new-global-rest-indep"),
        ("#count { X : u(X) } >= 1; u2(X,D)", "local-new-global-rest-indep"),
    ]:
        add(CHOICE_V + "\n" + base2 % lits, tag + "/2")
    add(CHOICE_V + "\nh(A,D,X) :- q(A,B,C); v(B); t(C); u(X,B); w2(X) : u2(X,D); s(A,D).", "global-new-local-rest/h3")
    add(CHOICE_V + "\nh(A,D,X) :- q(A,B,C); v(B); t(C); u(X,B); #count { Y : u2(Y,X,D) } >= 1; s(A,D).", "global-new-local-rest/h3")
    add(CHOICE_V + "\nh(A,D) :- s(A,D), q(B,C), v(C), w(X) : u(X,A).", "global-rest-local-cond")
    add(CHOICE_V + "\nh(A,D) :- s(A,D), q(B,C), v(C), #sum { X : u(X,A) } > 0.", "global-rest-local-agg")
    add(CHOICE_V + "\nh(A,D) :- s(A,D), q(B,C), v(C), w(C) : u(A).", "global-rest-local-cond")
    add(CHOICE_V + "\nh(A,D) :- s(A,D), q(B,C), v(C), w(C,A) : u(C).", "global-rest-cond-head")
    add(CHOICE_V + "\nh(A,D) :- s(A,D), q(B,C), v(C), #count { X : u(X,A), u2(X,C) } > 0.", "global-rest-local-agg")

    # ---- D. five variable base (the pinned firing shape) with extras over the projected variables
    five = "p(A,D) :- q(A,B,C), r(A,D), v(E), %s."
    for tag, lit in [
        ("neg", "not s(B,E)"),
        ("pos", "s(B,E)"),
        ("neg+cmp", "not s(B,E), C < E"),
        ("neg+arith", "not s(B,E), u(C+E)"),
        ("neg+cond", "not s(B,E), w(X) : u(X,E)"),
        ("neg+agg", "not s(B,E), #count { X : u(X,C,E) } >= 1"),
        ("neg+aggD", "not s(B,E), #count { X : u(X,C,D) } >= 1"),
        ("neg+bind", "not s(B,E), Y = C+E, u(Y)"),
        ("negD", "not s(B,D)"),
        ("neg-all", "not s(B,E), not u(C)"),
        ("two-aggs", "E2 = #sum { 1 }, not s(B,E2), D = #sum { 2 }"),
        ("agg-assign-neg", "N = #sum { X : u(X,C) }, not s(B,N)"),
        ("interval", "s(B,E..E+1)"),
        ("anon", "not s(B,_), u(E,_)"),
    ]:
        add(CHOICE_V + "\n" + five % lit, "five-" + tag)

    # ---- E. head kinds x body kinds; constraints and weak constraints are never split
    for (th, head), (tb, body) in itertools.product(HEADS, HEAD_BODIES):
        if tb == "five" and th in ("head3", "head-arith2", "choice-guardD", "counthead"):
            continue
        add(CHOICE_V + "\n%s :- %s." % (head, body), "head-%s/%s" % (th, tb))
    for tb, body in HEAD_BODIES:
        add(CHOICE_V + "\n:- %s." % body, "constraint/" + tb)
        add(CHOICE_V + "\n:~ %s. [1@1,A,D]" % body, "weak/" + tb)
    add(CHOICE_V + "\n:~ q(A,B), v(B), s(A,D). [D@1,A]", "weak/weight")
    add(CHOICE_V + "\n:~ q(A,B), v(B), s(A,D). [B@D]", "weak/weight")

    # projected variable is used inside the head (condition / weight / guard): it must be exported
    for th, head in [
        ("choice-cond", "{ h(A,X) : d(X,B) }"),
        ("disj-cond", "h(A,X) : d(X,B) ; g(A)"),
        ("sum-weight", "#sum { B,X : h(A,X) : d(X) } 3"),
        ("guard", "{ h(A,X) : d(X) } B"),
    ]:
        add(CHOICE_V + "\n%s :- q(A,B,C), v(B), t(C), s(A,D)." % head, "head-uses-projected/" + th)

    # the one witness of the clingo quirk (source itself is grounded wrongly by clingo, result is right)
    add(CHOICE_V + "\n{ h(A,X) : d(X,D) } :- q(A,B), #count { X : u(X,B) } >= 1, s(A,D).", "clingo-quirk-local-name-clash")

    # ---- F. recursion through the split rule
    rec_base = CHOICE_V + "\nh(X,Y) :- e(X,Y).\n"
    for tag, rule in [
        ("pos-new", "h(A,D) :- h(A,B), v(B), s(A,D)."),
        ("pos-rest", "h(A,D) :- q(A,B), v(B), h(D,A)."),
        ("pos-both", "h(A,D) :- h(A,B), v(B), h(D,A)."),
        ("neg-new", "h(A,D) :- q(A,B), not h(B,B), s(A,D)."),
        ("neg-rest", "h(A,D) :- q(A,B), v(B), s(A,D), not h(D,D)."),
        ("agg-new", "h(A,D) :- q(A,B), #count { X : h(X,B) } >= 1, s(A,D)."),
        ("agg-new-nonmono", "h(A,D) :- q(A,B), #sum { X : h(X,B) } = 1, s(A,D)."),
        ("agg-rest", "h(A,D) :- q(A,B), v(B), s(A,D), #sum { X : h(X,D) } >= 1."),
        ("cond-new", "h(A,D) :- q(A,B), h(B,X) : u(X); s(A,D)."),
        ("choice", "{ h(A,D) } :- h(A,B), v(B), s(A,D)."),
        ("disj", "h(A,D) ; g(A) :- h(A,B), v(B), s(A,D)."),
        ("chain", "h(A,D) :- h(A,B), h(B,C), h(C,D)."),
    ]:
        add(rec_base + rule, "rec-" + tag)

    # ---- G. names
    add(CHOICE_V + "\n__aux_1(X) :- dv(X).\ng(X) :- __aux_1(X).\nh(A,D) :- q(A,B), v(B), s(A,D).", "name-clash")
    add(CHOICE_V + "\n__aux_1(X) :- dv(X).\n__aux_2(X,Y) :- q(X,Y).\nh(A,D) :- q(A,B), v(B), s(A,D).\ng(A,D) :- __aux_2(A,B), __aux_1(B), s(A,D).", "name-clash")
    add(CHOICE_V + "\nh(A,D) :- q(A,B), v(B), s(A,D).\ng(A,D) :- q(B,A), not v(B), s(D,A).", "two-rules")
    add(CHOICE_V + "\nh(A,D) :- q(A,B), v(B), s(A,D).\nh(A,D) :- q(A,B), v(B), s(A,D).", "two-rules-same")
    add(CHOICE_V + "\nh(A,D) :- q(A,B), v(B), s(A,D).", "name-input-aux", [["__aux_1", 1]])
    add(CHOICE_V + "\nh(A,D) :- q(A,(B;C)), v(B), s(A,D).", "pool")
    add(CHOICE_V + "\nh(A,D) :- q(A,B), v(B;C), s(A,D), dv(C).", "pool")
    # six literals, nested split (the auxiliary rule can be split again)
    add(CHOICE_V + "\nh(A,D) :- q(A,B), v(B), w(B,C), z(C,E), u(E), s(A,D).", "six-chain")
    add(CHOICE_V + "\nh(A,D) :- q(A,B), v(B), w(C,E), z(E), u(C), s(A,D).", "six-two-components")
    add(CHOICE_V + "\nh(A,D,F) :- q(A,B), v(B), w(A,C), u(C), s(A,D), z(D,E), t(E,F).", "seven-nested")
    add(CHOICE_V + "\nh(A,D) :- q(A,B), v(B), not w(B,C), z(C), not u(C,E), t(E), s(A,D).", "six-neg")

    # ---- H. does an argument / comparison / aggregate guard bind X in the auxiliary rule?
    for t in BIND_ARGS:
        add("h(A,D) :- q(B), w(B,%s), s(A,D,X)." % t, "bind-arg")
    for c in BIND_CMPS:
        add(CHOICE_V + "\nh(A,D) :- q(B), v(B), %s, s(A,D,X)." % c, "bind-cmp")
    for g in BIND_AGGS:
        add(CHOICE_V + "\nh(A,D) :- q(B), v(B), %s, s(A,D,X)." % g, "bind-agg")
    # ngo's analysis is more conservative than gringo: the staying / new half looks unsafe to ngo
    for body in [
        "q(A,B), v(B), s(A,D*2)", "q(A,B), v(B), s(A,2*D+1)", "q(A,B), v(B), -s(A,D)", "-q(A,B), v(B), s(A,D)",
        "q(A,B*2), v(B), s(A,D)", "q(A,B*2), w(B*2), s(A,D)", "q(A,B), v(B), s(A,D), X = D*D, w(X)",
    ]:
        add(CHOICE_V + "\nh(A,D) :- %s." % body, "ngo-conservative")
    return out
