"""Grid for the `unused` pass (ngo/unused.py): anonymisation of singleton variables, usage analysis,
dropping of unused argument positions, removal of rules for unused predicates and short-circuiting of
copy rules.  Spanned side conditions: (usage) a predicate t/2 under every statement kind that does /
does not count as usage (bodies, `_`, negation, constraints, choice / disjunction / head-aggregate
elements and conditions, #sum/#count/#min/#max and old-style body aggregates, #show p/n, #show t:c,
#external, #heuristic, #edge, #project p/n, #project a:c, #minimize / :~), crossed with how t is defined
(copy of an input, join, choice, two rules) and with OUT = natural result / empty / t itself / both;
(removal) predicates only in heads, transitively unused, self-recursive, declared output, also input, read
by a signed head literal (`not u(X) :- B.`);
(positions) argument positions used in one rule and anonymous in another, singleton variables inside vs.
outside aggregates / conditional literals / objectives, name collisions of the projected predicate with an
existing, an input or an (absent) output predicate; (copies) head all-variables vs. constants / arithmetic,
equal vs. different arity, one vs. two body literals, one vs. two defining rules, positive vs. negative
body, literal vs. choice head, permuted / repeated / existential arguments, copy target input / output /
#show-n, copy target used positively, negated, in aggregates, objectives, constraints, conditions, with
constants, with repeated arguments, with clashing variable names, chains and cycles of copies, 0-ary copies,
classical negation."""
import itertools


def _prog(lines):
    return "\n".join(x for x in lines if x) + "\n"


def programs():
    out = []
    seen = set()

    def add(tag, lines, outp, inn=None):
        text = _prog(lines)
        key = (text, repr(outp), repr(inn))
        if key in seen:
            return
        seen.add(key)
        rec = {"program": text, "tag": tag, "out": [list(p) for p in outp]}
        if inn is not None:
            rec["in"] = [list(p) for p in inn]
        out.append(rec)

    # ------------------------------------------------------------------ family B: usage contexts of t/2
    tdefs = [
        ("copyin", ["t(X,Y) :- e(X,Y)."]),
        ("join", ["t(X,Y) :- p(X), q(Y), X != Y."]),
        ("choice", ["{ t(X,Y) } :- e(X,Y)."]),
        ("tworules", ["t(X,Y) :- e(X,Y).", "t(X,X) :- p(X)."]),
    ]
    # (label, lines, natural output)
    ctxs = [
        ("body-all", ["r(X,Y) :- t(X,Y), p(X)."], [["r", 2]]),
        ("body-anon1", ["r(X) :- t(X,_)."], [["r", 1]]),
        ("body-anon0", ["r(Y) :- t(_,Y), q(Y)."], [["r", 1]]),
        ("body-anon-all", ["r :- t(_,_)."], [["r", 0]]),
        ("body-singletons", ["r :- t(X,Y)."], [["r", 0]]),
        ("body-neg-anon", ["r(X) :- p(X), not t(X,_)."], [["r", 1]]),
        ("body-neg-rep", ["r(X) :- p(X), not t(X,X)."], [["r", 1]]),
        ("constraint", ["{ s(X) } :- p(X).", ":- t(X,_), s(X)."], [["s", 1]]),
        ("choice-cond", ["{ s(X) : t(X,_) }."], [["s", 1]]),
        ("choice-body", ["{ s(X) } :- t(_,X)."], [["s", 1]]),
        ("choice-elem", ["{ s(X) : p(X) ; t(X,Y) : q(Y), p(X) } 2."], [["s", 1]]),
        ("disj-body", ["r(X) ; s(X) :- t(X,_)."], [["r", 1], ["s", 1]]),
        ("disj-cond", ["r(X) : t(X,Y) ; s(Y) :- q(Y)."], [["r", 1], ["s", 1]]),
        ("disj-elem", ["t(X,Y) ; s(X,Y) :- e(X,Y), p(X)."], [["s", 2]]),
        ("headagg-elem", ["1 <= #count { X : t(X,Y) : e(X,Y) } <= 2."], [["t", 2]]),
        ("headagg-cond", ["1 <= #count { X : s(X) : t(X,_) } <= 2."], [["s", 1]]),
        ("count-anon", ["r(N) :- N = #count { X : t(X,_) }."], [["r", 1]]),
        ("count-single-inside", ["r(N) :- N = #count { X : t(X,Y) }."], [["r", 1]]),
        ("sum", ["r(X,N) :- p(X), N = #sum { Y,t : t(X,Y) }."], [["r", 2]]),
        ("min", ["r(N) :- N = #min { Y : t(_,Y) }."], [["r", 1]]),
        ("max", ["r(X) :- p(X), #max { Y : t(X,Y) } >= 1."], [["r", 1]]),
        ("oldagg", ["r :- 2 <= { t(X,Y) }."], [["r", 0]]),
        ("oldagg-cond", ["r(X) :- p(X), 1 <= { q(Y) : t(X,Y) }."], [["r", 1]]),
        ("show-sig", ["#show t/2."], []),
        ("show-term", ["#show f(X) : t(X,_)."], []),
        ("external", ["#external x(X) : t(X,_).", "r(X) :- x(X)."], [["r", 1]]),
        ("external-atom", ["#external t(X,Y) : p(X), q(Y).", "r(X) :- t(X,_), p(X)."], [["r", 1]]),
        ("project-atom-head", ["r(X) :- t(X,_), p(X).", "#project t(X,Y) : p(X), q(Y)."], [["r", 1]]),
        ("heuristic", ["{ s(X) } :- p(X).", "#heuristic s(X) : t(X,_). [1,true]"], [["s", 1]]),
        ("heuristic-atom", ["{ s(X) } :- p(X).", "#heuristic t(X,Y) : s(X), q(Y). [1,false]"], [["s", 1]]),
        ("edge", ["{ s(X,Y) } :- t(X,Y).", "#edge (X,Y) : s(X,Y), t(X,_)."], [["s", 2]]),
        ("edge-direct", ["#edge (X,Y) : t(X,Y)."], []),
        ("project-sig", ["#project t/2."], []),
        ("project-atom", ["{ s(X) } :- p(X).", "#project s(X) : t(X,_)."], [["s", 1]]),
        ("minimize-anon", ["{ s(X) } :- p(X).", "#minimize { 1@1,X : t(X,_), s(X) }."], [["s", 1]]),
        ("minimize-single", ["#minimize { 1@1,X : t(X,Y) }."], []),
        ("weak-weight", [":~ t(X,Y). [Y@1,X]"], []),
        ("weak-notuple", ["{ s(X) } :- p(X).", ":~ t(X,Y), not s(X). [1@2]"], [["s", 1]]),
    ]
    for (j, (cl, clines, nat)), (i, (dl, dlines)) in itertools.product(enumerate(ctxs), enumerate(tdefs)):
        # every (context, definition) pair once; OUT rotates: natural result / empty / t protected / both
        k = i + j
        outp = nat if k % 2 == 0 else [[], [["t", 2]], nat + [["t", 2]]][(k // 2) % 3]
        if not nat:  # nothing but t to observe: unprotected for the rule definitions, protected for choice / two rules
            outp = [] if i < 2 else [["t", 2]]
        add(f"use-{cl}", dlines + clines, outp)

    # ------------------------------------------------------------------ family A: removal of unused predicates
    base = ["{ sel(X) } :- p(X).", "r(X) :- sel(X), q(X)."]
    udefs = [
        ("fact0", ["u."], ["u", 0]),
        ("factpool", ["u(1;2)."], ["u", 1]),
        ("rule1", ["u(X) :- p(X)."], ["u", 1]),
        ("rule2", ["u(X,Y) :- p(X), q(Y)."], ["u", 2]),
        ("neg", ["u(X) :- p(X), not q(X)."], ["u", 1]),
        ("fromchoice", ["u(X) :- sel(X)."], ["u", 1]),
        ("agg", ["u(N) :- N = #count { X : sel(X) }."], ["u", 1]),
        ("selfrec", ["u(X) :- p(X).", "u(Y) :- u(X), e(X,Y)."], ["u", 1]),
        ("choicehead", ["{ u(X) } :- q(X)."], ["u", 1]),
        ("disjhead", ["u(X) ; v(X) :- q(X)."], ["u", 1]),
    ]
    for n, (dl, dlines, upred) in enumerate(udefs):
        add(f"remove-{dl}", base + dlines, [["r", 1]])
        add(f"remove-{dl}-nm-declared-out", base + dlines, [["r", 1], upred])
        if n % 2 == 0:
            add(f"remove-{dl}", base + dlines, [])
        else:
            add(f"remove-{dl}-nm-declared-in", base + dlines, [["r", 1]], inn=[upred])
    # transitive: u feeds v feeds w; nothing / something observes the end of the chain
    trans = ["u(X) :- p(X).", "v(X) :- u(X), q(X).", "w(X) :- v(X), not sel(X)."]
    for ol, outp in (("outR", [["r", 1]]), ("outW", [["w", 1]]), ("outV", [["v", 1]]), ("outU", [["u", 1]]), ("out0", [])):
        add("remove-transitive", base + trans, outp)
    add("remove-transitive-constraint", base + trans + [":- w(X), e(X,_)."], [["sel", 1]])
    add("remove-transitive-objective", base + trans + [":~ w(X). [1@1,X]"], [])
    add("remove-transitive-show", base + trans + ["#show w/1."], [["r", 1]])
    add("remove-other-arity-used", base + ["u(X) :- p(X).", "u(X,Y) :- e(X,Y).", "k(X) :- u(X,_), sel(X)."], [["k", 1]])
    add("remove-funcname-shadow", base + ["u(X) :- p(X).", "k(X) :- e(X,Y), sel(Y), q(u(X))."], [["k", 1]])

    # head literals with a sign read the predicate: `not u(X) :- B.` is the constraint `:- B, u(X).`
    for hl, head in (("negated", "not u(X)"), ("doubly-negated", "not not u(X)")):
        for dl, drule in (("copy", "u(X) :- sel(X)."), ("rule", "u(X) :- sel(X), p(X).")):
            add(f"remove-{hl}-head", base + [drule, f"{head} :- q(X)."], [["r", 1]] if dl == "copy" else [])
    add("remove-negated-head-nm-declared-out", base + ["u(X) :- sel(X), p(X).", "not u(X) :- q(X)."], [["r", 1], ["u", 1]])

    # ------------------------------------------------------------------ family D: positions
    t3 = "t(X,Y,Z) :- e(X,Y), q(Z)."
    names = ["X", "Y", "Z"]
    uses1 = [(0,), (0, 2), ()]
    uses2 = [None, (1,), (2,), (1, 2), "neg"]
    for k, (s1, s2) in enumerate(itertools.product(uses1, uses2)):
        a1 = ",".join(names[i] if i in s1 else "_" for i in range(3))
        h1 = ",".join(names[i] for i in s1)
        lines = [t3, f"r1({h1}) :- t({a1})." if s1 else f"r1 :- t({a1})."]
        outp = [["r1", len(s1)]]
        if s2 == "neg":  # position 1 is used only under negation, joined with a positive literal
            lines.append("r2(Y) :- p(Y), not t(_,Y,_).")
            outp = outp + [["r2", 1]]
        elif s2 is not None:
            a2 = ",".join(names[i] if i in s2 else "_" for i in range(3))
            h2 = ",".join(names[i] for i in s2)
            lines.append(f"r2({h2}) :- t({a2}).")
            outp = outp + [["r2", len(s2)]]
        add("pos-mixed", lines, outp)
        if k % 5 == 1:
            add("pos-mixed-nm-declared-out", lines, outp + [["t", 3]])
        if k % 5 == 3:
            add("pos-mixed-nm-declared-in", lines, outp, inn=[["t", 3]])
    single = [
        ("pos-single-inside-agg", ["t(X,Y) :- e(X,Y).", "r(X) :- p(X), 1 <= #count { Y : t(X,Y) }."], [["r", 1]]),
        ("pos-single-outside-agg", ["t(X,Y) :- e(X,Y).", "r(X) :- t(X,Y), 1 <= #count { Z : e(Z,X) }."], [["r", 1]]),
        ("pos-var-in-and-out-agg", ["t(X,Y) :- e(X,Y).", "r(X) :- t(X,Y), 1 <= #count { Z : e(Y,Z) }."], [["r", 1]]),
        ("pos-count-tuple-both", ["t(X,Y) :- e(X,Y).", "r(N) :- N = #count { X,Y : t(X,Y) }."], [["r", 1]]),
        ("pos-two-aggs-same-local", ["t(X,Y) :- e(X,Y).", "r :- 1 <= #count { X : t(X,Y) }, 1 <= #count { Y : t(X,Y) }."], [["r", 0]]),
        ("pos-condlit-local", ["t(X,Y) :- e(X,Y).", "r(X) :- p(X), q(Y) : t(X,Y)."], [["r", 1]]),
        ("pos-condlit-single", ["t(X,Y) :- e(X,Y).", "{ s }.", "r :- s : t(X,Y)."], [["r", 0], ["s", 0]]),
        ("pos-head-arith", ["t(X,X+1,7) :- p(X).", "r(X) :- t(X,Y,Z)."], [["r", 1]]),
        ("pos-head-arith-used", ["t(X,X+1,7) :- p(X).", "r(Y) :- t(X,Y,Z)."], [["r", 1]]),
        ("pos-body-arith-single", ["t(X,Y) :- e(X,Y).", "r :- t(X+1,Y)."], [["r", 0]]),
        ("pos-dropped-var-in-comparison", ["t(X,Y) :- p(X), q(Z), Y = Z*2.", "r(X) :- t(X,_)."], [["r", 1]]),
        ("pos-dropped-var-division", ["t(X,Y) :- e(X,Z), Y = 6/Z.", "r(X) :- t(X,_)."], [["r", 1]]),
        ("pos-funcarg-anon", ["t(X,f(Y,Z)) :- e(X,Y), q(Z).", "r(X) :- t(X,f(_,Z)), q(Z)."], [["r", 1]]),
        ("pos-const-arg", ["t(X,Y) :- e(X,Y).", "r(X) :- t(X,1)."], [["r", 1]]),
        ("pos-const-head", ["t(1,X) :- p(X).", "t(X,2) :- q(X).", "r(X) :- t(_,X)."], [["r", 1]]),
        ("pos-minimize-weight-only", ["{ t(X,Y) } :- e(X,Y).", "#minimize { Y@1 : t(X,Y) }."], [["t", 2]]),
        ("pos-minimize-weight-only", ["{ s(X,Y) } :- e(X,Y).", "t(X,Y) :- s(X,Y), p(X).", "#minimize { Y@1 : t(X,Y) }."], [["s", 2]]),
        ("pos-minimize-tuple", ["{ s(X,Y) } :- e(X,Y).", "t(X,Y) :- s(X,Y), p(X).", "#minimize { 1@1,X : t(X,Y) }."], [["s", 2]]),
        ("pos-maximize", ["{ s(X,Y) } :- e(X,Y).", "t(X,Y) :- s(X,Y), p(X).", "#maximize { Y@1,X : t(X,Z), q(Y) }."], [["s", 2]]),
        ("pos-recursive", ["t(X,Y) :- e(X,Y).", "t(X,Z) :- t(X,Y), e(Y,Z).", "r(X) :- t(X,_)."], [["r", 1]]),
        ("pos-recursive-anon", ["t(X,Y) :- e(X,Y).", "t(X,Y) :- t(X,_), e(_,Y).", "r(X) :- t(X,_)."], [["r", 1]]),
    ]
    for tag, lines, outp in single:
        add(tag, lines, outp)
        if tag in ("pos-condlit-single", "pos-dropped-var-division", "pos-two-aggs-same-local"):
            add(tag, lines, [])
    # name collisions of the projected predicate
    coll = ["t(X,Y) :- e(X,Y).", "r(X) :- t(X,_)."]
    add("pos-collision-defined", coll + ["t(X) :- q(X).", "k(X) :- t(X), p(X)."], [["r", 1], ["k", 1]])
    add("pos-collision-defined-out", coll + ["t(X) :- q(X)."], [["r", 1], ["t", 1]])
    add("pos-collision-input", coll + ["k(X) :- t(X), p(X)."], [["r", 1], ["k", 1]])
    add("pos-collision-input-decl", coll, [["r", 1]], inn=[["t", 1]])
    add("pos-collision-absent-out", coll, [["r", 1], ["t", 1]])
    add("pos-collision-two-sources", ["t(X,Y) :- e(X,Y).", "t(X,Y,Z) :- e(X,Y), q(Z).", "r(X) :- t(X,_).", "k(X) :- t(_,X,_)."], [["r", 1], ["k", 1]])
    add("pos-collision-arity0", ["t(X) :- p(X).", "{ t }.", "r :- t(_), not t."], [["r", 0], ["t", 0]])

    # ------------------------------------------------------------------ family C: copy rules
    sources = [
        ("srcin", []),
        ("srcchoice", ["{ s(X,Y) } :- e(X,Y)."]),
        ("srcjoin", ["s(X,Y) :- p(X), q(Y), not e(X,Y)."]),
    ]
    copies = [  # (label, lines using S as the source predicate, fires?)
        ("ident", ["a(X,Y) :- S(X,Y)."]),
        ("perm", ["a(X,Y) :- S(Y,X)."]),
        ("rep-both", ["a(X,X) :- S(X,X)."]),
        ("rep-head", ["a(X,X) :- S(X,Y)."]),
        ("nm-twolits", ["a(X,Y) :- S(X,Y), p(X)."]),
        ("nm-headconst", ["a(X,1) :- S(X,Y)."]),
        ("nm-arity", ["a(X,Y) :- S(X,Y,1)."]),
        ("nm-tworules", ["a(X,Y) :- S(X,Y).", "a(X,X) :- q(X)."]),
        ("nm-choicehead", ["{ a(X,Y) } :- S(X,Y)."]),
        ("nm-headarith", ["a(X,Y+1) :- S(X,Y)."]),
        ("nm-bodyarith", ["a(X,Y) :- S(X,Y+1)."]),
        ("nm-fact-too", ["a(X,Y) :- S(X,Y).", "a(1,1)."]),
    ]
    uses = [
        ("pos", ["r(X,Y) :- a(X,Y), p(Y)."], [["r", 2]]),
        ("neg", ["r(X,Y) :- p(X), q(Y), not a(X,Y)."], [["r", 2]]),
        ("count", ["r(X,N) :- p(X), N = #count { Y : a(X,Y) }."], [["r", 2]]),
        ("weak", [":~ a(X,Y). [Y@1,X]"], []),
        ("constraint", [":- a(X,Y), q(X), p(Y)."], []),
        ("constarg", ["r(Y) :- a(1,Y)."], [["r", 1]]),
        ("reparg", ["r(X) :- a(X,X)."], [["r", 1]]),
        ("choicecond", ["{ r(X,Y) : a(X,Y) } 1."], [["r", 2]]),
        ("varclash", ["r(X0,Y0) :- a(Y0,X0), p(X0)."], [["r", 2]]),
        ("anon", ["r(Y) :- a(_,Y), q(Y)."], [["r", 1]]),
    ]
    for (i, (cl, clines)), (j, (ul, ulines, nat)) in itertools.product(enumerate(copies), enumerate(uses)):
        if cl.startswith("nm-") and (j - i) % 10 not in (0, 3, 6):
            continue  # near-miss copy shapes: three (rotating) uses each; firing shapes: all uses
        sl, slines = sources[(i + j) % 3]
        if ul in ("weak", "constraint"):
            sl, slines = sources[1]
        spred = "e" if sl == "srcin" else "s"
        lines = slines + [x.replace("S(", spred + "(") for x in clines] + ulines
        outp = list(nat)
        if sl == "srcchoice":
            outp = outp + [["s", 2]]
        inn = None
        if cl == "nm-arity":
            if sl != "srcin":
                lines = [x.replace("s(X,Y)", "s(X,Y,1)") if x.startswith(("{ s", "s(")) else x for x in lines]
                outp = [["s", 3] if p == ["s", 2] else p for p in outp]
        add(f"copy-{cl}" if cl.startswith("nm-") else f"copy-{cl}-{ul}", lines, outp, inn)
    # copy target declared output / also input / in #show, per firing copy shape
    for n, (cl, clines) in enumerate(copies[:4]):
        lines = [x.replace("S(", "e(") for x in clines] + ["r(X,Y) :- a(X,Y), p(Y)."]
        add(f"copy-{cl}-nm-target-out", lines, [["r", 2], ["a", 2]])
        add(f"copy-{cl}-nm-target-in", lines, [["r", 2]], inn=[["a", 2]])
        add(f"copy-{cl}-target-show", lines + ["#show a/2."], [["r", 2]])
        if n % 2 == 0:
            add(f"copy-{cl}-target-project", lines + ["#project a/2."], [["r", 2]])
            add(f"copy-{cl}-target-external", lines + ["#external a(X,Y) : p(X), q(Y)."], [["r", 2]])
        else:
            add(f"copy-{cl}-target-heuristic", lines + ["#heuristic a(X,Y) : p(X), q(Y). [1,true]"], [["r", 2]])
            add(f"copy-{cl}-target-only-show", [x.replace("S(", "e(") for x in clines] + ["#show a/2."], [])
    # chains of copies
    links = {"i": "{h}(X,Y) :- {b}(X,Y).", "p": "{h}(X,Y) :- {b}(Y,X)."}
    for n, shape in enumerate(("ii", "pi", "pp", "iii", "pip")):
        preds = ["e", "a", "b", "c"][: len(shape) + 1]
        lines = [links[k].format(h=preds[n + 1], b=preds[n]) for n, k in enumerate(shape)]
        last = preds[-1]
        fin = [f"r(X,Y) :- {last}(X,Y), p(X)."]
        add(f"copy-chain-{shape}", lines + fin, [["r", 2]])
        add(f"copy-chain-{shape}-out-middle", lines + fin, [["r", 2], ["a", 2]])
        add(f"copy-chain-{shape}-out0-objective", ["{ e(X,Y) } :- p(X), q(Y)."] + lines + [f":~ {last}(X,Y), X < Y. [1@1,X,Y]"], [])
    add("copy-chain-reversed-order", ["r(X,Y) :- b(X,Y), p(X).", "b(X,Y) :- a(Y,X).", "a(X,Y) :- e(X,Y)."], [["r", 2]])
    add("copy-chain-of-choice", ["{ s(X) } :- p(X).", "a(X) :- s(X).", "b(X) :- a(X).", "r(X) :- b(X), q(X)."], [["r", 1], ["s", 1]])
    add("copy-chain-neg-use", ["a(X) :- p(X).", "b(X) :- a(X).", "r(X) :- q(X), not b(X)."], [["r", 1]])
    add("copy-chain-agg-use", ["a(X) :- p(X).", "b(X) :- a(X).", "r(N) :- N = #count { X : b(X) }."], [["r", 1]])
    add("copy-chain-objective", ["{ s(X) } :- p(X).", "a(X) :- s(X).", "b(X) :- a(X).", ":~ b(X). [1@1,X]"], [["s", 1]])
    # cycles of copies
    add("copy-cycle-pure", ["a(X) :- b(X).", "b(X) :- a(X).", "r(X) :- a(X), p(X)."], [["r", 1]])
    add("copy-cycle-fed", ["a(X) :- b(X).", "b(X) :- a(X).", "b(X) :- p(X).", "r(X) :- a(X), q(X)."], [["r", 1]])
    add("copy-cycle-perm", ["a(X,Y) :- b(Y,X).", "b(X,Y) :- a(Y,X).", "a(X,Y) :- e(X,Y).", "r(X,Y) :- b(X,Y), p(X)."], [["r", 2]])
    add("copy-self", ["a(X,Y) :- a(Y,X).", "a(X,Y) :- e(X,Y).", "r(X,Y) :- a(X,Y), p(X)."], [["r", 2]])
    add("copy-self-only", ["e2(X,Y) :- e(X,Y).", "e2(X,Y) :- e2(Y,X).", ":- e2(X,Y), p(X), q(Y)."], [])
    # 0-ary copies
    for cl, cline in (("pos", "a :- b."), ("nm-neg", "a :- not b."), ("nm-two", "a :- b, c."), ("nm-tworules", "a :- b.\na :- c.")):
        lines = ["{ b ; c }.", cline, "r(X) :- p(X), a."]
        add(f"copy-arity0-{cl}", lines, [["r", 1], ["b", 0], ["c", 0]])
        add(f"copy-arity0-{cl}-negative-use", ["{ b ; c }.", cline, "r(X) :- p(X), not a."], [["r", 1], ["b", 0]])
    # copies with function terms: existential and joined body-only variables
    fsrc = "s(h(X,Y),h(Z,Y)) :- e(X,Y), e(Z,Y)."
    add("copy-func-lostjoin", [fsrc, "s(h(X,Y),h(Z,W)) :- e(X,Y), e(Z,W).", "a(X,Z) :- s(h(X,Y),h(Z,Y)).", "r(X,Z) :- a(X,Z), p(X)."], [["r", 2]])
    add("copy-func-existential", [fsrc, "a(X,Z) :- s(h(X,Y),h(Z,W)).", "r(X,Z) :- a(X,Z), p(X)."], [["r", 2]])
    add("copy-func-existential-neg", [fsrc, "a(X,Z) :- s(h(X,Y),h(Z,W)).", "r(X,Z) :- p(X), q(Z), not a(X,Z)."], [["r", 2]])
    add("copy-func-existential-count", [fsrc, "a(X,Z) :- s(h(X,_),h(Z,_)).", "r(X,N) :- p(X), N = #count { Z : a(X,Z) }."], [["r", 2]])
    add("copy-func-head-nm", ["a(h(X,Y)) :- e(X,Y).", "r(X) :- a(h(X,_)), p(X)."], [["r", 1]])
    add("copy-func-usearg", ["a(X,Y) :- e(Y,X).", "k(h(X)) :- p(X).", "r(X) :- k(Z), a(X,Z)."], [["r", 1]])
    add("copy-func-usearg", ["a(X,Y) :- e(Y,X).", "r(X) :- a(X,Y+1), q(Y)."], [["r", 1]])
    # variable-name clashes with the renamed variables of the copy rule (X0, Y0)
    for cl, cline in (("ident", "a(X,Y) :- e(X,Y)."), ("perm", "a(X,Y) :- e(Y,X).")):
        add(f"copy-{cl}-varclash-swapped", [cline, "r(X0,Y0) :- a(Y0,X0), p(X0), q(Y0)."], [["r", 2]])
        add(f"copy-{cl}-varclash-same", [cline, "r(X0,Y0) :- a(X0,Y0), p(X0), q(Y0)."], [["r", 2]])
        add(f"copy-{cl}-varclash-partial", [cline, "r(Y0,Z) :- a(Y0,Z), p(Z)."], [["r", 2]])
        add(f"copy-{cl}-varclash-samenames", [cline, "r(X,Y) :- a(Y,X), p(X)."], [["r", 2]])
    # classical negation
    add("classical-neg-head", ["t(X,Y) :- e(X,Y).", "-t(X,Y) :- p(X), q(Y).", "r :- t(X,_), p(X)."], [["r", 0]])
    add("classical-neg-body", ["{ s(X) } :- p(X).", "-s(X) :- q(X).", "u(X) :- s(X).", "r(X) :- -s(X), p(X)."], [["r", 1], ["s", 1]])
    add("classical-neg-only", ["-u(X) :- p(X).", "r(X) :- q(X), not -u(X)."], [["r", 1]])
    add("classical-neg-unused", ["-u(X) :- p(X).", "u(X) :- q(X).", "r(X) :- q(X), p(X)."], [["r", 1]])
    add("classical-neg-copy", ["a(X) :- -b(X).", "-b(X) :- p(X).", "r(X) :- a(X), q(X)."], [["r", 1]])
    return out
