"""Programs added after the third round of seeded changes (single-trait properties only, DESIGN section 10.2).
Included by extra.programs()."""
from __future__ import annotations

import itertools


def programs():
    out = []

    def add(trait: str, tag: str, prg: str, **kw):
        out.append({"program": prg, "tag": "z-" + tag, "trait": trait, **kw})

    # ---- normalize: zero bounds on aggregates whose value can be negative
    for fn, guard in itertools.product(("#sum", "#sum+", "#count", "#min", "#max"), ("0 <= {A}", "{A} >= 0", "0 < {A}", "{A} > -1", "0 >= {A}", "not 0 <= {A}")):
        elem = "W,X : p(X,W)" if fn != "#count" else "X : p(X,W)"
        add("normalize", f"normalize-zero-bound:{fn}", "ok :- " + guard.format(A=f"{fn} {{ {elem} }}") + ".", facts_any=True)
        add("normalize", f"normalize-zero-bound-choice:{fn}", "{ p(X,W) } :- d(X,W).\nok :- " + guard.format(A=f"{fn} {{ {elem} }}") + ".")
    # ---- unused: directives that read a predicate with a position nobody else observes
    ch = "{ pick(X,Y,W) } :- arc(X,Y,W).\nlink(X,Y,W) :- pick(X,Y,W).\n"
    for d in ("#edge (X,Y) : link(X,Y,_).", "#edge (X,Y) : link(X,Y,W).", "#edge (X,Y) : link(X,Y,_), not skip(X)."):
        add("unused", "unused-edge-directive", ch + d, **{"in": [["arc", 3], ["skip", 1]], "out": [["pick", 3]]})
    add("unused", "unused-edge-directive", "{ dir(X,Y,L) ; dir(Y,X,L) } = 1 :- e(X,Y,L).\nuse(X,Y,L) :- dir(X,Y,L).\n#edge (X,Y) : use(X,Y,_).\n:~ dir(X,Y,L), X > Y. [1@1,X,Y]", **{"in": [["e", 3]], "out": [["dir", 3]]})
    # facts / body-less heads next to a copy rule
    for f in ("a(1).", "{ a(1..2) }.", "a(1) ; a(2).", "a(X) :- c(X)."):
        add("unused", "unused-copy-plus-fact", f + "\na(X) :- b(X).\nq(X) :- a(X).\nr(X) :- b(X).", **{"in": [["b", 1], ["c", 1]], "out": [["q", 1], ["r", 1]]})
    # ---- duplication: doubly negated (in)equalities, negated aggregates whose condition is shared
    tail = ", on, ready.\ngo :- on, ready, start."
    for cmp_ in ("not not X != Y", "not X != Y", "not not X = Y", "not X = Y", "X != Y"):
        add("duplication", f"duplication-signed-comparison:{cmp_}", f"differ(X,Y) :- left(X), right(Y), {cmp_}{tail}", **{"in": [["left", 1], ["right", 1], ["on", 0], ["ready", 0], ["start", 0]]})
        add("duplication", f"duplication-signed-comparison-weak:{cmp_}", f":~ left(X), right(Y), {cmp_}, on, ready. [1@1,X,Y]\ngo :- on, ready, start.", **{"in": [["left", 1], ["right", 1], ["on", 0], ["ready", 0], ["start", 0]], "out": [["go", 0]]})
    for sign, agg in itertools.product(("not ", "not not ", ""), ("2 <= #count { X : mem(G,X), act(X) }", "3 <= #sum { W,X : mem(G,X), act(X), w(X,W) }", "#count { X : mem(G,X), act(X) } = 1")):
        add("duplication", f"duplication-signed-aggregate:{sign.strip() or 'pos'}", f"quiet(G) :- grp(G), {sign}{agg}.\nlead(X) :- mem(G,X), act(X), big(G).", **{"in": [["grp", 1], ["mem", 2], ["act", 1], ["big", 1], ["w", 2]]})
        add("duplication", f"duplication-signed-aggregate-constraint:{sign.strip() or 'pos'}", "{ act(X) } :- cand(X).\n" + f":- grp(G), {sign}{agg}.\nlead(X) :- mem(G,X), act(X), big(G).", **{"in": [["grp", 1], ["mem", 2], ["cand", 1], ["big", 1], ["w", 2]], "out": [["act", 1], ["lead", 1]]})
    # ---- symmetry: a compared variable of a join inside an aggregate is bound by a literal after the aggregate
    for order in ("stop(X), {A}, home(L)", "stop(X), home(L), {A}", "home(L), {A}, stop(X)", "{A}, stop(X), home(L)"):
        for agg in ("1 <= #count { T : at(L,X,T), at(M,X,T), L != M }", "N = #count { T : at(L,X,T), at(M,X,T), L != M }, N > 0", "1 <= #sum { 1,T : at(L,X,T), at(M,X,T), L < M }"):
            add("symmetry", "symmetry-aggregate-bound-later", "late(X) :- " + order.format(A=agg) + ".", **{"in": [["stop", 1], ["home", 1], ["at", 3]]})
    # a compared variable at a non-compared position of a joined literal
    add("symmetry", "symmetry-compared-elsewhere", "bad(X) :- lead(A,A,X), lead(B,A,X), A != B.", **{"in": [["lead", 3]]})
    add("symmetry", "symmetry-compared-elsewhere", "shared(U) :- r(A,X), r(B,X), A != B, p(X,U), p(Y,U), X != Y.", **{"in": [["r", 2], ["p", 2]]})
    add("symmetry", "symmetry-compared-elsewhere", ":- lead(A,A,X), lead(B,A,X), A != B.\n{ lead(A,B,X) } :- c(A,B,X).", **{"in": [["c", 3]]})
    # ---- minmax: tuples that mention the group variable under |.|, -., arithmetic; groups d and -d
    grp = "delta(2). delta(-2). base(2,3). base(-2,3). cand(2,5). cand(-2,4).\nsel(D,V) :- base(D,V).\n{ sel(D,V) } :- cand(D,V).\n"
    for t, fn in itertools.product(("|D|", "-D", "D", "D*D", "f(|D|)", "D/2"), ("#max", "#min")):
        add("minmax_chains", f"minmax-tuple-term:{t}", grp + f"best(D,X) :- delta(D), X = {fn} {{ V : sel(D,V) }}.\ntotal(S) :- S = #sum {{ X,{t} : best(D,X) }}.")
        add("minmax_chains", f"minmax-tuple-term-objective:{t}", grp + f"best(D,X) :- delta(D), X = {fn} {{ V : sel(D,V) }}.\n:~ best(D,X). [X@1,{t}]", out=[["sel", 2]])
    # a conditional literal next to the aggregate whose "local" variable is bound by a literal that stays behind
    sel = "{ pick(P,V) } :- cand(P,V).\n"
    for cl in ("not blocked(P,Y) : other(Y)", "ok(P,Y) : other(Y)", "not blocked(P,Y) : other(Y), Y > 0"):
        add("minmax_chains", "minmax-conditional-shares-outer", sel + f"best(P,Y,M) :- person(P), sel(Y), M = #max {{ V : pick(P,V) }}, {cl}.", **{"in": [["cand", 2], ["person", 1], ["sel", 1], ["blocked", 2], ["ok", 2], ["other", 1]]})
        add("minmax_chains", "minmax-conditional-shares-outer", sel + f"cheap(P,Y) :- person(P), sel(Y), 4 <= #min {{ V : pick(P,V) }}, {cl}.", **{"in": [["cand", 2], ["person", 1], ["sel", 1], ["blocked", 2], ["ok", 2], ["other", 1]]})
    # ---- sum_chains: weight bound by another aggregate, constants at another value position
    amo = "{ shift(D,L) : len(L) } 1 :- day(D).\n"
    add("sum_chains", "sumchains-weight-from-aggregate", amo + "long(X) :- M = #max { L : len(L) }, X = #sum { M,D : shift(D,M) }.")
    add("sum_chains", "sumchains-weight-from-aggregate", amo + "short(X) :- M = #min { L : len(L) }, X = #sum { M,D : shift(D,M) }.")
    add("sum_chains", "sumchains-weight-from-aggregate", amo + "long(X) :- M = #count { L : len(L) }, X = #sum { M,D : shift(D,M) }.")
    three = "{ assign(T,M,D) : opt(T,M,D) } 1 :- task(T).\n"
    for at in ("assign(T,m1,D)", "assign(T,1,D)", "assign(T,f(1),D)", "assign(T,_,D)", "assign(T,M,D), mach(M)"):
        add("sum_chains", f"sumchains-constant-value-position:{at}", three + f"load(X) :- X = #sum {{ D,T : {at} }}.", **{"in": [["opt", 3], ["task", 1], ["mach", 1]]})
        add("sum_chains", f"sumchains-constant-value-position-objective:{at}", three + f":~ {at}. [D@1,T]", **{"in": [["opt", 3], ["task", 1], ["mach", 1]], "out": [["assign", 3]]})
    add("sum_chains", "sumchains-constant-value-position:consts", "{ assign(T,M,D) : opt(T,M,D) } 1 :- task(T).\nopt(a,m1,3). opt(a,m2,4). opt(b,m2,6). opt(b,m1,1). task(a). task(b).\nload(X) :- X = #sum { D,T : assign(T,m1,D) }.")
    # ---- math: comparisons that become constant after elimination (ties), several roots
    for c in ("Y >= X+1", "not Y < X+1", "X+1 <= Y", "Y <= X+1", "Y > X", "Y = X+1", "not Y != X+1", "Y != X+1"):
        add("math", f"math-constant-tie:{c}", f"a(X) :- b(X), Y = X+1, {c}.", **{"in": [["b", 1]]})
        add("math", f"math-constant-tie-constraint:{c}", "{ s(X) } :- b(X).\n" + f":- s(X), Y = X+1, {c}.", **{"in": [["b", 1]], "out": [["s", 1]]})
    for body in ("Z = X*X, Z = Y*Y", "Z = X*X, Z = 9", "Z = X*X, Z = 4, X > 0", "Z = X*Y, Z = 6", "Z = X*X-X, Z = 2", "X*X = Z, Z = Y+2"):
        add("math", "math-several-roots", f"a(X,Y) :- b(X), c(Y), {body}.", **{"in": [["b", 1], ["c", 1]]})
        add("math", "math-several-roots-constraint", "{ s(X) } :- b(X).\n" + f":- s(X), c(Y), {body}.", **{"in": [["b", 1], ["c", 1]], "out": [["s", 1]]})
    # ---- inline: two helpers used by one statement; objectives whose priority is a variable
    two = "{ sel(G) } :- grp(G).\n{ opt(G) } :- grp(G).\nh(G,S) :- sel(G), S = #sum { W,I : item(G,I,W) }.\nk(G,S) :- opt(G), S = #sum { W,I : extra(G,I,W) }.\n"
    for use in ("tot(T) :- T = #sum { F,V,a : h(V,F); F,V,b : k(V,F) }.", "tot(T) :- T = #sum { F,V,a : h(V,F) }.\next(T) :- T = #sum { F,V,b : k(V,F) }.", "tot(T) :- T = #sum { F,V,a : h(V,F); F,V,b : k(V,F); 1,c : grp(_) }."):
        add("inline", "inline-two-helpers-one-statement", two + use, **{"in": [["grp", 1], ["item", 3], ["extra", 3]], "out": [["tot", 1], ["sel", 1], ["opt", 1]]})
    for other in (":~ fee(I,W,P), pick(I). [W@P,I]", ":~ fee(I,W,P), pick(I). [W@1,I]", ":~ fee(I,W,P), pick(I). [W@P,I,x]", ":~ fee(I,W,_), pick(I). [W@lvl,I]\n#const lvl=1."):
        add("inline", "inline-objective-priority-term", "{ pick(I) } :- cand(I,_).\n:~ X = #sum { W,I : pick(I), cand(I,W) }. [X@1]\nfee(I,W,1) :- cand(I,W), taxed(I).\n" + other, **{"in": [["cand", 2], ["taxed", 1]], "out": [["pick", 1]]})
    # ---- projection: rules that are split in two rounds, after other splits of the same arity
    g = "g(A,D) :- q(A,_,B), t(B,E), r(A,D,_)."
    k = "k(A,D) :- q(A,_,B), u(B,E), r(A,D,_)."
    h = "h(A,G,D,F) :- q(A,G,B), t(B,E), u(E,H), r(A,D,F)."
    for combo in ((g, k, h), (h, g, k), (g, h), (g, k, "{ k2(A,D) } :- q(A,_,B), u(B,E), r(A,D,_), not g(A,D).", h), (k, g, h, h.replace("h(", "h2(").replace("t(B,E)", "t(B,E), t(E,B)"))):
        add("projection", "projection-two-rounds", "\n".join(combo), **{"in": [["q", 3], ["t", 2], ["u", 2], ["r", 3]]})
    # a conditional literal whose condition uses a variable that is global through the other part
    for cl in ("w(X,B) : s(X,E)", "not w(X,B) : s(X,E)", "w(X,B) : s(X,E), X <= E", "1 <= #sum { 1,X : w(X,B), s(X,E) }"):
        add("projection", "projection-conditional-uses-outer", f"h(A,D,E) :- q(A,B,C), {cl}; r(A,D,E).", **{"in": [["q", 3], ["w", 2], ["s", 2], ["r", 3]]})
        add("projection", "projection-conditional-uses-outer", f"{{ h(A,D,E) }} :- q(A,B,C), {cl}; r(A,D,E), v(C).", **{"in": [["q", 3], ["w", 2], ["s", 2], ["r", 3], ["v", 1]]})
    return out
