"""Node-kind grid for C18: one atom `t(X)` (or `t`) placed in every AST position the clingo grammar allows for an atom,
crossed with how (and whether) `t` is defined elsewhere.  The reference collector must agree with ngo's hand-written
per-node-kind traversal on every one of them."""
import itertools


def programs():
    out = []
    # positions: (label, template with {A} for the atom over variable X bound by d(X))
    positions = [
        ("body-pos", "h(X) :- d(X), {A}."),
        ("body-neg", "h(X) :- d(X), not {A}."),
        ("body-dneg", "h(X) :- d(X), not not {A}."),
        ("cond-lit-head", "h(X) :- d(X), {A} : e(X)."),
        ("cond-lit-cond", "h(X) :- d(X), e(X) : {A}."),
        ("cond-lit-neg", "h(X) :- d(X), not {A} : e(X)."),
        ("body-sum-cond", "h(X) :- d(X), 1 <= #sum {{ 1,X : {A} }}."),
        ("body-sum-cond2", "h(X) :- d(X), 1 <= #sum {{ 1,X : e(X), not {A} }}."),
        ("body-count-cond", "h(X) :- d(X), #count {{ X : {A} }} >= 1."),
        ("body-min-cond", "h(Y) :- d(Y), Y = #min {{ X : {A}, d(X) }}."),
        ("body-old-agg", "h(X) :- d(X), 1 {{ {A} }}."),
        ("body-old-agg-cond", "h(X) :- d(X), 1 {{ e(X) : {A} }}."),
        ("body-old-agg-neg", "h(X) :- d(X), {{ not {A} }} 0."),
        ("not-agg", "h(X) :- d(X), not 1 <= #sum {{ 1,X : {A} }}."),
        ("choice-elem", "{{ {A} }} :- d(X)."),
        ("choice-elem-cond", "{{ h(X) : {A} }} :- d(X)."),
        ("choice-elem-neg", "{{ not {A} }} :- d(X)."),
        ("choice-bounds", "1 {{ {A} : d(X) }} 2."),
        ("disj-elem", "{A} ; h(X) :- d(X)."),
        ("disj-cond", "h(X) : {A} ; g(X) :- d(X)."),
        ("disj-neg", "not {A} ; h(X) :- d(X)."),
        ("headagg-elem", "1 <= #sum {{ 1,X : {A} : e(X) }} :- d(X)."),
        ("headagg-cond", "1 <= #count {{ X : h(X) : {A} }} :- d(X)."),
        ("headagg-elem-neg", "#sum {{ 1,X : not {A} : e(X) }} <= 1 :- d(X)."),
        ("plain-head", "{A} :- d(X)."),
        ("neg-head", "not {A} :- d(X)."),
        ("dneg-head", "not not {A} :- d(X)."),
        ("constraint", ":- d(X), {A}."),
        ("weak", ":~ d(X), {A}. [1@1,X]"),
        ("weak-neg", ":~ d(X), not {A}. [1@1,X]"),
        ("weak-cond", ":~ d(X), e(X) : {A}. [1@1,X]"),
        ("minimize", "#minimize {{ 1,X : {A}, d(X) }}."),
        ("maximize", "#maximize {{ X@2,X : d(X), not {A} }}."),
        ("minimize-agg", ":~ d(X), 1 <= #sum {{ 1 : {A} }}. [1@1,X]"),
        ("pool", "h(X) :- d(X), {A}, e(X;X+1)."),
        ("show-term-cond", "#show x(X) : {A}, d(X)."),
        ("show-term-only", "#show X : {A}."),
        ("external", "#external {A} : d(X)."),
        ("external-cond", "#external h(X) : {A}, d(X)."),
        ("heuristic", "#heuristic h(X) : {A}, d(X). [1,true]"),
        ("edge", "#edge (X,X) : {A}, d(X)."),
        ("project", "#project h(X) : {A}, d(X)."),
    ]
    # how t/1 is defined elsewhere
    definitions = [
        ("undefined", ""),
        ("fact", "t(1)."),
        ("rule", "t(X) :- e(X)."),
        ("self", "t(X) :- t(X), e(X)."),
        ("self+other", "t(X) :- t(X), e(X).\nt(X) :- f(X)."),
        ("choice", "{ t(X) } :- e(X)."),
        ("choice-self-cond", "{ t(X) : t(X) } :- e(X)."),
        ("disj", "t(X) ; u(X) :- e(X)."),
        ("headagg", "1 <= #sum { 1,X : t(X) : e(X) } :- f(_)."),
        ("neg-head-only", "not t(X) :- e(X)."),
        ("mutual", "t(X) :- u(X).\nu(X) :- t(X)."),
    ]
    shows = [("", ""), ("show-sig", "#show t/1."), ("show-term", "#show y(X) : t(X), e(X)."), ("show-other", "#show h/1."), ("show-nothing", "#show.")]
    for (plabel, ptmpl), (dlabel, dtext) in itertools.product(positions, definitions):
        prog = ptmpl.format(A="t(X)") + "\n" + dtext
        out.append({"program": prog, "tag": f"detect:{plabel}:{dlabel}"})
    for (plabel, ptmpl), (slabel, stext) in itertools.product(positions[:12] + positions[24:30], shows[1:]):
        prog = ptmpl.format(A="t(X)") + "\n" + stext
        out.append({"program": prog, "tag": f"detect:{plabel}:{slabel}"})
    # atoms whose symbol is a pool (argument pools and tuple pools), in every position
    for (plabel, ptmpl), (dlabel, dtext) in itertools.product(positions, definitions[:4]):
        for pool in ("t(X;X+1)", "t(X,1;X,2)", "t(1;2)"):
            prog = ptmpl.replace("{A}", pool).replace("{{", "{").replace("}}", "}") + "\n" + dtext.replace("t(X)", "t(X,X)" if "," in pool else "t(X)")
            out.append({"program": prog, "tag": f"detect:{plabel}:{dlabel}:pool"})
    # zero-arity and multi-arity occurrences, same name different arity
    for (plabel, ptmpl) in positions[:8] + positions[14:20]:
        out.append({"program": ptmpl.replace("{A}", "t").replace("{{", "{").replace("}}", "}") + "\nt(X) :- e(X).", "tag": f"detect:{plabel}:arity0-vs-1"})
        out.append({"program": ptmpl.replace("{A}", "t(X,X)").replace("{{", "{").replace("}}", "}") + "\nt(X) :- e(X).\n#show t/2.", "tag": f"detect:{plabel}:arity2-vs-1"})
    # function terms that are no atoms: tuple terms and comparison sides in the condition of a #show term, in rule
    # bodies, heads and objectives (they are neither inputs nor outputs), and objectives with conditional literals
    base = "{ assigned(T,S) : free(S) } 1 :- task(T).\nbusy(S) :- assigned(_,S).\n"
    fterms = [
        "#show clashes(K) : K = #count { pair(T,U) : assigned(T,slot(D,_)), assigned(U,slot(D,_)), T < U }.",
        "#show morning(T) : assigned(T,S), S = slot(_,am), not late(T).",
        "#show slot(T) : assigned(T,S), f(S) != g(T).",
        "#show f(T,S) : assigned(T,S).",
        "#show p(T) : assigned(T,S), #sum { 1,w(S) : late(T) } >= 0.",
        "ok(T) :- assigned(T,S), S = slot(_,am).",
        "ok(f(T)) :- assigned(T,g(S)).",
        ":~ assigned(T,S), S = slot(D,_). [1@1,pair(T,D)]",
        ":~ task(T), not assigned(T,S) : prio(S,_). [1@1,T]",
        ":~ task(T), assigned(T,S) : prio(S,_). [1@1,T]",
        ":- task(T), not assigned(T,S) : prio(S,_).",
    ]
    for ft in fterms:
        out.append({"program": base + ft, "tag": "detect:function-terms-and-objective-conditions"})
        out.append({"program": base + "#show assigned/2.\n" + ft, "tag": "detect:function-terms-and-objective-conditions:show-sig"})
    return out
