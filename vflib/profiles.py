"""The twenty profiles (DESIGN section 9): which cases, which deciding checkers, what counts as non-trivial."""
from __future__ import annotations

import importlib
import json
import random
from typing import Any, Callable, Optional

from . import cases
from .traits import DEFAULT_TRAITS, TRAITS

BIJ = {"kind": "bij", "voc": "source", "cost": False}
BIJ_COST = {"kind": "bij", "voc": "source", "cost": True}
SET_OUT = {"kind": "set", "voc": "out", "cost": False}
SETCOST_OUT = {"kind": "set", "voc": "out", "cost": True}
SETCOST_INOUT = {"kind": "set", "voc": "inout", "cost": True}
SET_INOUT = {"kind": "set", "voc": "inout", "cost": False}
SHOWN = {"kind": "set", "voc": "shown", "cost": False}
SHOWN_COST = {"kind": "set", "voc": "shown", "cost": True}

ALWAYS = ["purity", "stdout"]  # bystander contracts evaluated on every execution


def grid(name: str) -> list[dict]:
    """programs of an enumerated template grid: dicts with program, optional in/out, tag"""
    try:
        mod = importlib.import_module(f"vflib.grids.{name}")
    except ModuleNotFoundError:
        return []
    except Exception as exc:  # pylint: disable=broad-exception-caught
        import sys

        print(f"WARNING: grid {name} failed to import: {type(exc).__name__}: {exc}", file=sys.stderr)
        return []
    out = []
    try:
        progs = list(mod.programs())
    except Exception as exc:  # pylint: disable=broad-exception-caught
        import sys

        print(f"WARNING: grid {name} failed to enumerate: {type(exc).__name__}: {exc}", file=sys.stderr)
        return []
    for i, g in enumerate(progs):
        g = dict(g)
        g.setdefault("id", f"grid.{name}.{i}")
        g.setdefault("tag", name)
        out.append(g)
    return out


def opt_case(
    prop: str,
    cid: str,
    program: str,
    traits: list[str],
    inn: Any,
    out: Any,
    mode: Optional[dict],
    checks: list[str],
    n_inst: int,
    inst_seed: int,
    **extra: Any,
) -> dict:
    c = {
        "id": cid,
        "prop": prop,
        "kind": "opt",
        "program": program,
        "traits": list(traits),
        "in": inn,
        "out": out,
        "mode": mode,
        "checks": list(checks) + ALWAYS,
        "n_inst": n_inst,
        "inst_seed": inst_seed,
    }
    c.update(extra)
    return c


def decl_of(rec: dict, all_heads_out: bool = True) -> tuple:
    """explicit declaration of a corpus/grid record: IN ⊇ open predicates, OUT = the record's own or all head predicates"""
    inn = cases.explicit_in(rec["program"], rec.get("in") or rec.get("input_predicates"))
    out = rec.get("out") if rec.get("out") is not None else rec.get("output_predicates")
    if out is None:
        out = [list(p) for p in cases.head_preds(rec["program"])] if all_heads_out else []
    return inn, out


def pick(items: list, k: int, rng: random.Random) -> list:
    """k items, stratified by tag: every tag (= side condition / shape class a grid spans) is represented before any tag
    is drawn a second time; within a tag the choice is random"""
    if len(items) <= k:
        return list(items)
    groups: dict = {}
    for it in items:
        key = it.get("tag") if isinstance(it, dict) else None
        groups.setdefault(key, []).append(it)
    if len(groups) <= 1:
        return rng.sample(items, k)
    pools = list(groups.values())
    for p in pools:
        rng.shuffle(p)
    rng.shuffle(pools)
    out: list = []
    depth = 0
    while len(out) < k:
        progressed = False
        for p in pools:
            if depth < len(p):
                out.append(p[depth])
                progressed = True
                if len(out) >= k:
                    break
        if not progressed:
            break
        depth += 1
    return out


class Profile:
    prop = ""
    title = ""
    level = "exploration"
    technique = ""
    rule = ""
    level_text = ""
    level_note = ""
    design_ref = ""
    timeout = 60.0
    assumptions: list[str] = []

    def cases(self, tier: str, seed: int) -> list[dict]:
        raise NotImplementedError

    def nontrivial(self, case: dict, res: dict) -> bool:
        """did the rewrite under judgement fire and was at least one instance compared with >= 1 answer set"""
        cnt = res.get("counters", {})
        return bool(res.get("changed")) and cnt.get("instances_with_models", 0) > 0

    def post(self, results: list[tuple]) -> list[dict]:
        """cross-case checks (driver side); returns extra violations"""
        return []

    def sample(self, case: dict, res: dict) -> dict:
        tr = res.get("info", {}).get("run", {}).get("stages", [])
        return {
            "id": case["id"],
            "program": case.get("program", "")[:600],
            "traits": case.get("traits"),
            "in": case.get("in"),
            "out": case.get("out"),
            "changed_by": res.get("changed"),
            "instances_compared": res.get("counters", {}).get("instances_compared"),
            "answer_sets_compared": res.get("counters", {}).get("answer_sets_compared"),
            "stage_trace": tr[:14],
            "verdict": res.get("verdict"),
        }


# ----------------------------------------------------------------------------------------
# single-trait equivalence profiles C08, C10-C14, C16 and C09, C15
# ----------------------------------------------------------------------------------------


class TraitProfile(Profile):
    trait = ""
    mode = BIJ_COST
    extra_checks: list[str] = []
    extra_configs: list[list[str]] = []
    grids: list[str] = []
    corpus_traits: list[str] = []
    quick_mutants = 250
    thorough_mutants = 4000
    technique = "runtime monitoring: real optimize under stage tracer + clingo answer-set enumeration oracle on generated instances"

    def programs(self) -> list[dict]:
        recs = []
        for r in cases.corpus_for(self.corpus_traits or [self.trait]):
            recs.append({"id": r["id"], "program": r["program"], "in": r.get("input_predicates"), "out": r.get("output_predicates"), "tag": "corpus"})
        for g in self.grids:
            recs.extend(grid(g))
        recs.extend(r for r in grid("extra") if r.get("trait") == self.trait)
        return recs

    def decl(self, rec: dict) -> tuple:
        return decl_of(rec)

    def cases(self, tier: str, seed: int) -> list[dict]:
        rng = random.Random(f"{self.prop}:{seed}")
        thorough = tier == "thorough"
        n_inst = 14 if thorough else 6
        out = []
        recs = self.programs()
        configs = [[self.trait]] + self.extra_configs
        checks = ["equiv"] + self.extra_checks + (["stepwise"] if thorough else [])
        for rec in recs:
            inn, outp = self.decl(rec)
            for tr in configs:
                out.append(opt_case(self.prop, f"{rec['id']}|{'+'.join(tr)}", rec["program"], tr, inn, outp, self.mode, checks, n_inst, seed, tag=rec.get("tag")))
            if thorough:
                for k in range(2):
                    out.append(
                        opt_case(self.prop, f"{rec['id']}|{self.trait}|i{k}", rec["program"], [self.trait], inn, outp, self.mode, ["equiv"], n_inst, seed * 1000 + 17 + k, tag=rec.get("tag"))
                    )
        # single-site AST mutants of corpus and grid programs
        muts = []
        for rec in recs:
            for desc, text in cases.program_mutants(rec["program"]):
                muts.append((rec, desc, text))
        muts = pick(muts, self.thorough_mutants if thorough else self.quick_mutants, rng)
        for rec, desc, text in muts:
            inn = cases.explicit_in(text, rec.get("in"))
            outp = rec.get("out") if rec.get("out") is not None else [list(p) for p in cases.head_preds(text)]
            out.append(opt_case(self.prop, f"{rec['id']}|mut:{desc}|{self.trait}", text, [self.trait], inn, outp, self.mode, ["equiv"], max(4, n_inst - 2), seed, tag="mutant"))
        return out

    def nontrivial(self, case: dict, res: dict) -> bool:
        cnt = res.get("counters", {})
        return self.trait in (res.get("changed") or []) and cnt.get("instances_with_models", 0) > 0


class C08(TraitProfile):
    prop, trait, title = "C08", "cleanup", "cleanup deletes only literals and rules that cannot matter"
    mode = BIJ
    grids = ["cleanup"]
    design_ref = "9.8"
    rule = (
        "cases = corpus programs of test_cleanup + enumerated cleanup grid + single-site AST mutants, run with only cleanup enabled; "
        "non-trivial = distinct (program, declaration) where the stage trace shows cleanup changed the program and >= 1 instance with >= 1 answer set was compared"
    )


class C10(TraitProfile):
    prop, trait, title = "C10", "duplication", "duplication: factored-out literal sets keep their meaning"
    grids = ["duplication"]
    extra_checks = ["scope"]
    design_ref = "9.10"
    rule = "corpus(test_literal_duplication) + duplication grid + mutants, only duplication; non-trivial = duplication changed the program and an instance with >=1 answer set was compared"


class C11(TraitProfile):
    prop, trait, title = "C11", "symmetry", "symmetry: ordered/counted joins fire exactly when the != joins fired"
    mode = BIJ
    grids = ["symmetry"]
    design_ref = "9.11"
    rule = "corpus(test_symmetry) + symmetry grid (k-copies instances) + mutants, only symmetry; non-trivial = symmetry changed the program and an instance with >=1 answer set was compared"


class C12(TraitProfile):
    prop, trait, title = "C12", "minmax_chains", "minmax_chains compute the same #min/#max"
    grids = ["minmax"]
    design_ref = "9.12"
    rule = "corpus(test_minmax_aggregates) + minmax grid + mutants, only minmax_chains, costs compared; non-trivial = minmax_chains changed the program and an instance with >=1 answer set was compared"


class C13(TraitProfile):
    prop, trait, title = "C13", "sum_chains", "sum_chains: chained weights add up to the original sum"
    grids = ["sumchains"]
    design_ref = "9.13"
    rule = "corpus(test_sum_aggregates) + sum_chains grid + mutants, only sum_chains, costs compared; non-trivial = sum_chains changed the program and an instance with >=1 answer set was compared"


class C14(TraitProfile):
    prop, trait, title = "C14", "math", "math: simplified comparisons and aggregates are exact over the integers"
    grids = ["math"]
    design_ref = "9.14"
    quick_mutants = 200
    rule = "corpus(test_math_simplification) + math grid + mutants, only math, costs compared; non-trivial = math changed the program and an instance with >=1 answer set was compared"


class C16(TraitProfile):
    prop, trait, title = "C16", "projection", "projection: a split rule derives exactly what the unsplit rule derived"
    mode = BIJ
    grids = ["projection"]
    extra_checks = ["c04", "scope"]
    design_ref = "9.16"
    rule = "corpus(test_projection) + projection grid + mutants, only projection, result also checked for safety; non-trivial = projection changed the program and an instance with >=1 answer set was compared"


class C09(TraitProfile):
    prop, trait, title = "C09", "unused", "unused removes or shrinks only what no output, constraint or objective can see"
    mode = SETCOST_INOUT
    extra_checks = ["c09"]
    grids = ["unused"]
    design_ref = "9.9"
    rule = (
        "corpus(test_unused) + unused grid + mutants with declarations (own, all heads, random subsets, empty OUT), only unused; "
        "AS and costs compared on IN u OUT; contract: no protected predicate reaches UnusedTranslator._new_name; "
        "non-trivial = unused changed the program and an instance with >=1 answer set was compared"
    )

    def cases(self, tier: str, seed: int) -> list[dict]:
        out = super().cases(tier, seed)
        rng = random.Random(f"C09d:{seed}")
        n_inst = 14 if tier == "thorough" else 6
        for rec in self.programs():
            for k, (inn, outp) in enumerate(cases.decl_variants({"program": rec["program"], "input_predicates": rec.get("in"), "output_predicates": rec.get("out")}, rng, 4 if tier == "thorough" else 2)):
                if inn == "auto":
                    continue
                out.append(opt_case("C09", f"{rec['id']}|unused|d{k}", rec["program"], ["unused"], inn, outp, self.mode, ["equiv", "c09"], n_inst, seed, tag=rec.get("tag")))
        return out


class C15(TraitProfile):
    prop, trait, title = "C15", "inline", "inline: unfolding an aggregate-defining rule keeps values"
    mode = SETCOST_INOUT
    extra_configs = [["math", "inline"]]
    grids = ["inline"]
    design_ref = "9.15"
    rule = (
        "corpus(test_inline) + inline grid + mutants, configurations only(inline) and math+inline; AS and costs compared on IN u OUT; "
        "non-trivial = inline changed the program and an instance with >=1 answer set was compared"
    )

    def decl(self, rec: dict) -> tuple:
        # the helper predicate must stay inlinable: outputs are the record's own, else everything except aggregate helpers is fine
        inn = cases.explicit_in(rec["program"], rec.get("in"))
        out = rec.get("out")
        if out is None:
            used = {tuple(p) for p in cases.used_preds(rec["program"])}
            out = [list(p) for p in cases.head_preds(rec["program"]) if tuple(p) not in used]
        return inn, out


REGISTRY: dict[str, Profile] = {}


def register(p: Profile) -> None:
    REGISTRY[p.prop] = p


for _cls in (C08, C09, C10, C11, C12, C13, C14, C15, C16):
    register(_cls())
