"""Profiles C01-C07 and C17-C20 (DESIGN 9.1-9.7, 9.17-9.20)."""
from __future__ import annotations

import itertools
import random
import re
from typing import Any

from . import cases
from .profiles import (
    BIJ,
    BIJ_COST,
    SET_INOUT,
    SET_OUT,
    SETCOST_INOUT,
    SETCOST_OUT,
    SHOWN,
    SHOWN_COST,
    Profile,
    decl_of,
    grid,
    opt_case,
    pick,
    register,
)
from .traits import DEFAULT_TRAITS, TRAITS

TRAIT_GRIDS = {
    "cleanup": ["cleanup"],
    "unused": ["unused"],
    "duplication": ["duplication"],
    "symmetry": ["symmetry", "domains"],
    "minmax_chains": ["minmax", "domains", "objectives"],
    "sum_chains": ["sumchains", "domains", "objectives"],
    "math": ["math", "objectives"],
    "inline": ["inline", "objectives"],
    "projection": ["projection"],
}
ALL_GRIDS = ["extra", "cleanup", "unused", "duplication", "symmetry", "minmax", "sumchains", "math", "inline", "projection", "normalize", "objectives", "robust", "domains", "vocab", "detect"]
GRID_TRAIT = {
    "cleanup": "cleanup",
    "unused": "unused",
    "duplication": "duplication",
    "symmetry": "symmetry",
    "minmax": "minmax_chains",
    "sumchains": "sum_chains",
    "math": "math",
    "inline": "inline",
    "projection": "projection",
    "domains": "minmax_chains",
    "objectives": "minmax_chains",
}

_POOL: dict = {}


def corpus_recs() -> list[dict]:
    if "corpus" not in _POOL:
        _POOL["corpus"] = [
            {"id": r["id"], "program": r["program"], "in": r.get("input_predicates"), "out": r.get("output_predicates"), "tag": "corpus", "trait": r["trait"]}
            for r in cases.corpus()
        ]
    return _POOL["corpus"]


def grid_recs(names: list[str]) -> list[dict]:
    out = []
    for n in names:
        if n not in _POOL:
            recs = grid(n)
            for r in recs:
                r["trait"] = r.get("trait") or GRID_TRAIT.get(n, "other")
                r["grid"] = n
            _POOL[n] = recs
        out.extend(_POOL[n])
    return out


def own_traits(rec: dict) -> list[str]:
    t = rec.get("trait")
    return [t] if t in TRAITS else list(DEFAULT_TRAITS)


def has_objective(text: str) -> bool:
    return ":~" in text or "#minimize" in text or "#maximize" in text or "#minimise" in text or "#maximise" in text


def terminal_out(text: str) -> list:
    used = {tuple(p) for p in cases.used_preds(text)}
    return [list(p) for p in cases.head_preds(text) if tuple(p) not in used]


def const_overrides(text: str, rng: random.Random) -> list[dict]:
    names = re.findall(r"#const\s+([a-z_][A-Za-z0-9_]*)\s*=", text)
    if not names:
        return []
    out = []
    for vals in ((0,), (2,), (5,)):
        out.append({n: vals[0] + i for i, n in enumerate(sorted(set(names)))})
    return out


def mutants_of(recs: list[dict], k: int, rng: random.Random) -> list[tuple]:
    """k mutants drawn evenly from the records"""
    if not recs or k <= 0:
        return []
    recs = list(recs)
    rng.shuffle(recs)
    out: list[tuple] = []
    per = max(1, k // max(1, min(len(recs), k)) + 1)
    for rec in recs:
        ms = cases.program_mutants(rec["program"], limit=per, rng=rng)
        for desc, text in ms:
            out.append((rec, desc, text))
        if len(out) >= k:
            break
    return out[:k]


# ----------------------------------------------------------------------------------------
# C01 / C02
# ----------------------------------------------------------------------------------------


class C01(Profile):
    prop, title, design_ref = "C01", "Optimised program has the same answer sets on the output predicates", "9.1"
    technique = "runtime monitoring: stage-traced optimize + clingo enumeration oracle on OUT / shown atoms over generated instances, trait subsets and declarations"
    rule = (
        "cases = (corpus programs u all template grids u single-site AST mutants) x trait selections (default, all, none, single, random subsets of the 2^9) "
        "x declarations (explicit IN >= open predicates with OUT in {all heads, random subset, with absent predicate, empty}; auto/auto compared on shown atoms) x -c overrides; "
        "non-trivial = distinct (program, traits, IN, OUT) where >= 1 pass changed the program and >= 1 instance with >= 1 answer set was compared"
    )
    timeout = 90.0

    def cases(self, tier: str, seed: int) -> list[dict]:
        rng = random.Random(f"C01:{seed}")
        th = tier == "thorough"
        n_inst = 14 if th else 6
        out: list[dict] = []
        checks = ["equiv"] + (["stepwise"] if th else [])

        def add(rec: dict, traits: list[str], inn: Any, outp: Any, suffix: str, **extra: Any) -> None:
            mode = SHOWN if (inn == "auto" and outp == "auto") else SET_OUT
            out.append(opt_case("C01", f"{rec['id']}|{'+'.join(traits) or 'none'}|{suffix}", rec["program"], traits, inn, outp, mode, checks, n_inst, seed, tag=rec.get("tag"), **extra))

        corp = corpus_recs()
        grids = grid_recs([g for g in ALL_GRIDS if g not in ("detect",)])
        gsel = grids if th else pick(grids, 700, rng)
        for rec in corp + gsel:
            inn, outp = decl_of(rec)
            configs = [list(DEFAULT_TRAITS)]
            if rec.get("tag") == "corpus" or th:
                configs.append(list(TRAITS))
            configs.append(own_traits(rec))
            configs += cases.trait_subsets(rng, 2 if th else 1)
            if th:
                configs.append([])
            seen = set()
            for tr in configs:
                key = tuple(tr)
                if key in seen:
                    continue
                seen.add(key)
                add(rec, tr, inn, outp, "exp")
            add(rec, list(DEFAULT_TRAITS), "auto", "auto", "auto")
            for k, (i2, o2) in enumerate(cases.decl_variants({"program": rec["program"], "input_predicates": rec.get("in"), "output_predicates": rec.get("out")}, rng, 3 if th else 1, out_all=False)):
                if i2 == "auto":
                    continue
                add(rec, list(DEFAULT_TRAITS), i2, o2, f"d{k}")
            for ci, consts in enumerate(const_overrides(rec["program"], rng)):
                add(rec, list(DEFAULT_TRAITS), inn, outp, f"c{ci}", consts=consts)
        for rec, desc, text in mutants_of(corp + grids, 6000 if th else 350, rng):
            inn = cases.explicit_in(text, rec.get("in"))
            outp = rec.get("out") if rec.get("out") is not None else [list(p) for p in cases.head_preds(text)]
            tr = rng.choice([list(DEFAULT_TRAITS), own_traits(rec), list(TRAITS)])
            out.append(opt_case("C01", f"{rec['id']}|mut:{desc}|{'+'.join(tr)}", text, tr, inn, outp, SET_OUT, ["equiv"], max(4, n_inst - 2), seed, tag="mutant"))
        return out


class C02(Profile):
    prop, title, design_ref = "C02", "Optimisation statements keep the cost of every answer set", "9.2"
    technique = "runtime monitoring: clingo --opt-mode=enum oracle comparing (answer set on OUT, cost vector) pairs of source and optimised program"
    rule = (
        "cases = programs with #minimize/#maximize/:~ (corpus, objectives grid, minmax/sum_chains/inline/math grids, mutants) x traits "
        "(minmax_chains, sum_chains, inline, math alone, pairs, default, all) x OUT in {all heads, terminal heads}; (M|OUT, cost per priority) sets compared; "
        "non-trivial = distinct case where a pass changed the program and an instance with >= 1 answer set was compared"
    )
    timeout = 90.0

    def cases(self, tier: str, seed: int) -> list[dict]:
        rng = random.Random(f"C02:{seed}")
        th = tier == "thorough"
        n_inst = 14 if th else 6
        recs = [r for r in corpus_recs() + grid_recs(["objectives", "extra", "minmax", "sumchains", "inline", "math", "duplication", "unused", "cleanup", "normalize"]) if has_objective(r["program"])]
        singles = [["minmax_chains"], ["sum_chains"], ["inline"], ["math"]]
        pairs = [["math", "inline"], ["minmax_chains", "sum_chains"], ["minmax_chains", "inline"], ["sum_chains", "math"], ["minmax_chains", "math"], ["sum_chains", "inline"]]
        out = []
        checks = ["equiv"] + (["stepwise"] if th else [])
        corp_obj = [r for r in recs if r.get("tag") == "corpus"]
        for rec in (recs if th else corp_obj + pick([r for r in recs if r.get("tag") != "corpus"], 650, rng)):
            inn = cases.explicit_in(rec["program"], rec.get("in"))
            outs = []
            if rec.get("out") is not None:
                outs.append(rec["out"])
            outs.append(terminal_out(rec["program"]))
            if th or rec.get("out") is None:
                outs.append([list(p) for p in cases.head_preds(rec["program"])])
            configs = [list(DEFAULT_TRAITS), own_traits(rec)] + (singles + pairs + [list(TRAITS)] if th else [rng.choice(singles), rng.choice(pairs)])
            seen = set()
            for oi, outp in enumerate(outs[: 3 if th else 1]):
                for tr in configs:
                    key = (tuple(tr), str(outp))
                    if key in seen:
                        continue
                    seen.add(key)
                    out.append(opt_case("C02", f"{rec['id']}|{'+'.join(tr)}|o{oi}", rec["program"], tr, inn, outp, SETCOST_OUT, checks, n_inst, seed, tag=rec.get("tag")))
            out.append(opt_case("C02", f"{rec['id']}|default|auto", rec["program"], list(DEFAULT_TRAITS), "auto", "auto", SHOWN_COST, ["equiv"], n_inst, seed, tag=rec.get("tag")))
        for rec, desc, text in mutants_of(recs, 3000 if th else 250, rng):
            if not has_objective(text):
                continue
            inn = cases.explicit_in(text, rec.get("in"))
            outp = rec.get("out") if rec.get("out") is not None else terminal_out(text)
            tr = rng.choice([list(DEFAULT_TRAITS), own_traits(rec)] + pairs)
            out.append(opt_case("C02", f"{rec['id']}|mut:{desc}|{'+'.join(tr)}", text, tr, inn, outp, SETCOST_OUT, ["equiv"], max(4, n_inst - 2), seed, tag="mutant"))
        return out


# ----------------------------------------------------------------------------------------
# C03
# ----------------------------------------------------------------------------------------


def cli_args(traits: list[str], inn: Any, outp: Any) -> list[str]:
    args = ["--enable"] + (list(traits) or ["none"])
    args += ["--input-predicates", "auto" if inn == "auto" else ",".join(f"{n}/{a}" for n, a in inn)]
    args += ["--output-predicates", "auto" if outp == "auto" else ",".join(f"{n}/{a}" for n, a in outp)]
    return args


class C03(Profile):
    prop, title, design_ref = "C03", "optimize always returns: no exception, failed assertion or endless fixpoint loop", "9.3"
    technique = "runtime monitoring: exception recorder, repeated-state detector on outer/inner fixpoint loops, sys.monitoring logical step clock; wall-clock kill only inconclusive"
    rule = (
        "cases = (corpus u all grids incl. the unsupported-constructs grid u single-site mutants) x (default, all, none, single traits, random subsets) "
        "x declarations (explicit, auto, empty, with absent predicates), plus a sample through `python -m ngo`; deciding monitors: any exception leaving optimize, "
        "a repeated state of the outer loop or an instrumented inner loop, logical budgets (64 outer iterations, 6e7 PY_START+JUMP events in ngo code); "
        "non-trivial = distinct (program, configuration) where >= 1 pass changed the program or the program contains a construct no trait optimises (robust grid)"
    )
    timeout = 120.0

    def cases(self, tier: str, seed: int) -> list[dict]:
        rng = random.Random(f"C03:{seed}")
        th = tier == "thorough"
        out: list[dict] = []
        corp = corpus_recs()
        grids = grid_recs([g for g in ALL_GRIDS if g != "detect"])
        robust = [r for r in grids if r.get("grid") == "robust"]
        others = [r for r in grids if r.get("grid") != "robust"]
        sel = corp + robust + (others if th else pick(others, 250, rng))
        sel_ids = {r["id"] for r in sel}

        def add(rec: dict, text: str, tr: list[str], inn: Any, outp: Any, suffix: str, **extra: Any) -> None:
            out.append(opt_case("C03", f"{rec['id']}|{'+'.join(tr) or 'none'}|{suffix}", text, tr, inn, outp, None, ["c03"], 0, seed, tag=rec.get("tag"), allow_partial_in=True, **extra))

        for rec in sel:
            inn, outp = decl_of(rec)
            configs = [list(DEFAULT_TRAITS), list(TRAITS)]
            if th:
                configs += [[t] for t in TRAITS] + [[]]
            elif rec in robust:
                configs += [[t] for t in rng.sample(TRAITS, 1)] + [[]]
            else:
                configs.append(own_traits(rec))
            configs += cases.trait_subsets(rng, 4 if th else 1)
            seen = set()
            for tr in configs:
                if tuple(tr) in seen:
                    continue
                seen.add(tuple(tr))
                add(rec, rec["program"], tr, inn, outp, "exp")
            add(rec, rec["program"], list(DEFAULT_TRAITS), "auto", "auto", "auto")
            add(rec, rec["program"], list(TRAITS), [], [], "empty")
            add(rec, rec["program"], list(DEFAULT_TRAITS), inn + [["vf_absent_in", 2]], (outp or []) + [["vf_absent_out", 1]], "absent")
        if not th:
            # a third of the other grid programs (stratified, seed-selected) once with all traits on: breadth over shapes
            rest = [dict(r, tag=(r.get("tag") or "").split("#")[0]) for r in others if r["id"] not in sel_ids]
            xs = [r for r in rest if r.get("grid") == "extra"]  # one program of every class of the extra grids, always
            once = pick(xs, len({r["tag"] for r in xs}), rng) + pick([r for r in rest if r.get("grid") != "extra"], len(rest) // 5, rng)
            for rec in once:
                if rec["id"] not in sel_ids:
                    inn, outp = decl_of(rec)
                    add(rec, rec["program"], list(TRAITS), inn, outp, "exp")
        for rec, desc, text in mutants_of(corp + grids, 12000 if th else 400, rng):
            inn = cases.explicit_in(text, rec.get("in"))
            outp = rec.get("out") if rec.get("out") is not None else [list(p) for p in cases.head_preds(text)]
            tr = rng.choice([list(DEFAULT_TRAITS), list(TRAITS), own_traits(rec)] + cases.trait_subsets(rng, 1))
            add({"id": rec["id"], "tag": "mutant"}, text, tr, inn, outp, f"mut:{desc}")
        # the same through the command line (a sample)
        for rec in pick(corp + robust, 120 if th else 24, rng):
            inn, outp = decl_of(rec)
            tr = rng.choice([list(DEFAULT_TRAITS), list(TRAITS), own_traits(rec)])
            out.append(
                {
                    "id": f"{rec['id']}|cli|{'+'.join(tr)}",
                    "prop": "C03",
                    "kind": "cli",
                    "program": rec["program"],
                    "args": cli_args(tr, inn, outp),
                    "expect": {"traits": tr, "in": inn, "out": outp, "valid": True},
                    "need_safe": True,
                    "tag": "cli",
                }
            )
        return out

    def nontrivial(self, case: dict, res: dict) -> bool:
        if case.get("kind") == "cli":
            return bool(res.get("counters", {}).get("cli_compared"))
        return bool(res.get("changed")) or case.get("tag", "").startswith("robust") or "robust" in case["id"]


# ----------------------------------------------------------------------------------------
# C04 / C05 / C06
# ----------------------------------------------------------------------------------------


class C04(Profile):
    prop, title, design_ref = "C04", "The result is a valid, safe clingo program and its printed form is faithful", "9.4"
    technique = "runtime monitoring: every returned statement fed to clingo ProgramBuilder, print/parse round trip, AST load vs text load answer sets compared on generated instances"
    rule = (
        "cases = (corpus u grids u mutants) x (own trait, default, all, random subsets); checker: ProgramBuilder.add of every statement, str(parse(str(s))) == str(s), "
        "result grounded with every usable instance through the AST path and the text path, model multisets equal; "
        "non-trivial = distinct case where >= 1 pass changed the program and >= 1 instance was grounded both ways"
    )
    timeout = 90.0

    def cases(self, tier: str, seed: int) -> list[dict]:
        rng = random.Random(f"C04:{seed}")
        th = tier == "thorough"
        n_inst = 8 if th else 4
        corp = corpus_recs()
        grids = grid_recs([g for g in ALL_GRIDS if g != "detect"])
        sel = corp + (grids if th else pick(grids, 900, rng))
        out = []
        for rec in sel:
            inn, outp = decl_of(rec)
            configs = [own_traits(rec), list(DEFAULT_TRAITS)] + ([list(TRAITS), []] + cases.trait_subsets(rng, 2) if th or rec.get("tag") == "corpus" else [])
            seen = set()
            for tr in configs:
                if tuple(tr) in seen:
                    continue
                seen.add(tuple(tr))
                out.append(opt_case("C04", f"{rec['id']}|{'+'.join(tr) or 'none'}", rec["program"], tr, inn, outp, None, ["c04"], n_inst, seed, tag=rec.get("tag")))
        for rec, desc, text in mutants_of(corp + grids, 8000 if th else 500, rng):
            inn = cases.explicit_in(text, rec.get("in"))
            outp = rec.get("out") if rec.get("out") is not None else [list(p) for p in cases.head_preds(text)]
            tr = rng.choice([list(DEFAULT_TRAITS), own_traits(rec), list(TRAITS)])
            out.append(opt_case("C04", f"{rec['id']}|mut:{desc}|{'+'.join(tr)}", text, tr, inn, outp, None, ["c04"], n_inst, seed, tag="mutant"))
        return out

    def nontrivial(self, case: dict, res: dict) -> bool:
        return bool(res.get("changed")) and res.get("counters", {}).get("c04_instances", 0) > 0


class C05(Profile):
    prop, title, design_ref = "C05", "With every trait disabled the rewrite is meaning-preserving for all predicates", "9.5"
    technique = "runtime monitoring: optimize with all traits off under stage tracer; clingo oracle, one-to-one on the whole source vocabulary, facts over ANY predicate"
    rule = (
        "cases = (corpus of test_normalize/test_ast + normalize grid + every other corpus/grid program + mutants), all nine traits off, IN = OUT = []; "
        "instances add facts over any predicate of P (also derived ones, function terms); bijection on voc(P) with costs; "
        "non-trivial = distinct program where preprocess, the ex-line step or postprocess changed the text and an instance with >= 1 answer set was compared"
    )

    def cases(self, tier: str, seed: int) -> list[dict]:
        rng = random.Random(f"C05:{seed}")
        th = tier == "thorough"
        n_inst = 16 if th else 7
        norm = [r for r in corpus_recs() if r["trait"] in ("normalize", "ast")] + grid_recs(["normalize"]) + [r for r in grid_recs(["extra"]) if r["trait"] == "normalize"]
        rest = [r for r in corpus_recs() if r["trait"] not in ("normalize", "ast")] + [r for r in grid_recs([g for g in ALL_GRIDS if g not in ("normalize", "detect")]) if r["trait"] != "normalize"]
        sel = norm + (rest if th else pick(rest, 500, rng))
        out = []
        checks = ["equiv"] + (["stepwise"] if th else [])
        for rec in sel:
            out.append(opt_case("C05", f"{rec['id']}|none", rec["program"], [], [], [], BIJ_COST, checks, n_inst, seed, tag=rec.get("tag"), facts="any", allow_partial_in=True))
            for ci, consts in enumerate(const_overrides(rec["program"], rng)[:1]):
                out.append(opt_case("C05", f"{rec['id']}|none|c{ci}", rec["program"], [], [], [], BIJ_COST, ["equiv"], n_inst, seed, tag=rec.get("tag"), facts="any", allow_partial_in=True, consts=consts))
        for rec, desc, text in mutants_of(norm, 5000 if th else 400, rng) + mutants_of(rest, 3000 if th else 150, rng):
            out.append(opt_case("C05", f"{rec['id']}|mut:{desc}|none", text, [], [], [], BIJ_COST, ["equiv"], max(5, n_inst - 2), seed, tag="mutant", facts="any", allow_partial_in=True))
        return out

    def nontrivial(self, case: dict, res: dict) -> bool:
        cnt = res.get("counters", {})
        fired = cnt.get("pass_changed:preprocess", 0) + cnt.get("pass_changed:postprocess", 0) + cnt.get("pass_changed:exline", 0)
        return fired > 0 and cnt.get("instances_with_models", 0) > 0


AUX_ONLY = ["cleanup", "duplication", "symmetry", "minmax_chains", "sum_chains", "math", "projection"]


class C06(Profile):
    prop, title, design_ref = "C06", "Traits that only add auxiliary predicates keep all source atoms, one-to-one", "9.6"
    technique = "runtime monitoring: clingo oracle counting answer sets and comparing their restriction to the source vocabulary, over subsets of the seven auxiliary-only traits"
    rule = (
        "cases = (corpus u grids of the seven traits u mutants) x non-empty subsets of {cleanup, duplication, symmetry, minmax_chains, sum_chains, math, projection} "
        "(all 127 in thorough over the grid sample, sampled in quick), unused and inline off; M -> M|voc(P) must be a bijection onto AS(P u I); "
        "non-trivial = distinct case where >= 1 of the enabled passes changed the program and an instance with >= 1 answer set was compared"
    )
    timeout = 90.0

    def cases(self, tier: str, seed: int) -> list[dict]:
        rng = random.Random(f"C06:{seed}")
        th = tier == "thorough"
        n_inst = 12 if th else 6
        recs = [r for r in corpus_recs() if r["trait"] in AUX_ONLY + ["dependency", "regression"]] + grid_recs(["cleanup", "duplication", "symmetry", "minmax", "sumchains", "math", "projection", "domains", "objectives"])
        # programs written after the seeded rounds, sampled per class (their own tags are per program)
        extras = [dict(r, tag=r["tag"].split("#")[0]) for r in grid_recs(["extra"]) if r.get("trait") in AUX_ONLY]
        subsets = [list(c) for k in range(1, 8) for c in itertools.combinations(AUX_ONLY, k)]
        out = []
        checks = ["equiv"] + (["stepwise"] if th else [])
        # quick: every class of the extra grid (one program each) and a stratified sample of the rest
        sel = recs + extras if th else pick(extras, len({r["tag"] for r in extras}), rng) + pick(recs, 800, rng)
        recs = recs + extras
        for rec in sel:
            inn, outp = decl_of(rec)
            configs = [list(AUX_ONLY)] + [rng.choice(subsets) for _ in range(3 if th else 1)]
            own = own_traits(rec)
            if len(own) == 1 and own[0] in AUX_ONLY:
                configs.append(own + [rng.choice(AUX_ONLY)])
            seen = set()
            for tr in configs:
                tr = [t for t in TRAITS if t in tr]
                if tuple(tr) in seen:
                    continue
                seen.add(tuple(tr))
                out.append(opt_case("C06", f"{rec['id']}|{'+'.join(tr)}", rec["program"], tr, inn, outp, BIJ, checks, n_inst, seed, tag=rec.get("tag")))
        if th:
            for rec in pick(recs, 60, rng):
                inn, outp = decl_of(rec)
                for tr in subsets:
                    out.append(opt_case("C06", f"{rec['id']}|{'+'.join(tr)}", rec["program"], tr, inn, outp, BIJ, ["equiv"], 8, seed, tag=rec.get("tag")))
        for rec, desc, text in mutants_of(recs, 4000 if th else 300, rng):
            inn = cases.explicit_in(text, rec.get("in"))
            outp = [list(p) for p in cases.head_preds(text)]
            tr = [t for t in TRAITS if t in rng.choice(subsets + [list(AUX_ONLY)] * 20)]
            out.append(opt_case("C06", f"{rec['id']}|mut:{desc}|{'+'.join(tr)}", text, tr, inn, outp, BIJ, ["equiv"], max(4, n_inst - 2), seed, tag="mutant"))
        return out


# ----------------------------------------------------------------------------------------
# C07
# ----------------------------------------------------------------------------------------


class C07(Profile):
    prop, title, design_ref = "C07", "Interface predicates are untouched and every invented name is fresh", "9.7"
    technique = "runtime monitoring: icontract freshness contracts on every name generator, single-purpose and pass-through monitors, collision-seeking twins and layout twins judged by the clingo oracle"
    rule = (
        "cases = programs on which some pass invents a name (corpus, grids, vocabulary grid of hard-wired names) under default/all traits, plus for each: a decoy twin "
        "(facts over exactly the predicates ngo invented for the neutral program, declared output), a variable twin (source variables renamed to the variables ngo invented), "
        "layout twins (all statements on one line; every location identical). Deciding: freshness contracts (predicate/variable not in OLD vocabulary, source, IN, OUT), "
        "add_domain_rule single purpose, new head predicates fresh, inputs get no new heads, non-rule statements verbatim in order, equivalence on IN u OUT; "
        "non-trivial = distinct case in which >= 1 name generator contract was evaluated or >= 2 pass-through statements were compared"
    )
    timeout = 90.0

    def cases(self, tier: str, seed: int) -> list[dict]:
        rng = random.Random(f"C07:{seed}")
        th = tier == "thorough"
        n_inst = 10 if th else 5
        inventive = [r for r in corpus_recs() if r["trait"] in ("symmetry", "minmax_chains", "sum_chains", "duplication", "projection", "unused", "math", "inline", "dependency")]
        grids = grid_recs(["symmetry", "minmax", "sumchains", "duplication", "projection", "unused", "domains", "inline", "objectives"])
        names = [r for r in grid_recs(["extra"]) if "localname" in r["tag"] or "globalname" in r["tag"]]
        # sources that already use names ngo generates, several inventions on one line, a second round of inventions
        names += [r for r in grid_recs(["extra"]) if any(k in r["tag"] for k in ("y-symmetry-aux-in-source", "y-minmax-one-line:grouped", "y-minmax-one-line:mixed", "y-duplication-second-round"))]
        grids += [r for r in grid_recs(["extra"]) if "two-positions" in r["tag"]]
        vocab = grid_recs(["vocab"])
        robust = grid_recs(["robust"])
        sel = inventive + names + (grids if th else pick(grids, 300, rng))
        out = []

        def add(rec: dict, tr: list[str], suffix: str, **extra: Any) -> None:
            inn, outp = decl_of(rec)
            out.append(opt_case("C07", f"{rec['id']}|{'+'.join(tr)}|{suffix}", rec["program"], tr, inn, outp, SET_INOUT, ["c07", "scope", "equiv"], n_inst, seed, tag=rec.get("tag"), **extra))

        twin_ids = {r["id"] for r in (sel if th else names + pick(inventive, 60, rng) + pick(grids, 60, rng))}
        for rec in sel:
            configs = [list(TRAITS)] + ([list(DEFAULT_TRAITS), own_traits(rec)] if th else [own_traits(rec)])
            for tr in configs:
                add(rec, tr, "plain")
            if rec["id"] not in twin_ids:
                continue
            tr = list(TRAITS)
            add(rec, tr, "decoy", twin="decoy")
            add(rec, tr, "vars", twin="vars")
            add(rec, tr, "oneline", layout="oneline")
            add(rec, tr, "loc", layout="loc")
            if th:
                add(rec, own_traits(rec), "decoy1", twin="decoy")
                add(rec, own_traits(rec), "oneline1", layout="oneline")
        for vi, rec in enumerate(vocab if th else pick(vocab, 220, rng)):
            for tr in [list(TRAITS)] + ([list(DEFAULT_TRAITS)] if th else []) + ([own_traits(rec)] if rec.get("trait") in TRAITS else []):
                add(rec, tr, "plain")
            if th or vi % 3 == 0:
                add(rec, list(TRAITS), "oneline", layout="oneline")
                add(rec, list(TRAITS), "loc", layout="loc")
        for rec in (robust if th else pick(robust, 120, rng)):
            add(rec, list(DEFAULT_TRAITS), "plain")
        for rec, desc, text in mutants_of(inventive + vocab, 3000 if th else 200, rng):
            inn = cases.explicit_in(text, rec.get("in"))
            outp = [list(p) for p in cases.head_preds(text)]
            out.append(opt_case("C07", f"{rec['id']}|mut:{desc}|all", text, list(TRAITS), inn, outp, SET_INOUT, ["c07", "equiv"], 4, seed, tag="mutant"))
        return out

    def nontrivial(self, case: dict, res: dict) -> bool:
        cnt = res.get("counters", {})
        gen = cnt.get("contract_evals:fresh_predicate", 0) + cnt.get("contract_evals:fresh_variable", 0)
        return gen > 0 or cnt.get("c07_passthrough_stmts", 0) >= 2


# ----------------------------------------------------------------------------------------
# C17
# ----------------------------------------------------------------------------------------


class C17(Profile):
    prop, title, design_ref = "C17", "optimize is pure: reproducible, history-independent, leaves its argument alone", "9.17"
    technique = "runtime monitoring: icontract snapshot/ensure on the caller's argument, PYTHONHASHSEED sweep across worker processes and CLI runs, permuted call histories in one process compared with fresh processes"
    rule = (
        "three deciding monitors: (1) argument immutability contract (str, length, deep equality, identity of the caller's statements) on every in-process optimize; "
        "(2) the same (program, declaration, traits) optimised in worker processes started with PYTHONHASHSEED in a seed set (8 quick / 16 thorough) and through `python -m ngo`; outputs byte-identical; "
        "(3) one process optimises a program list in several orders (gc between), outputs equal per program and equal to a fresh CLI process; "
        "non-trivial = distinct (program, traits) whose run changed the program (for histories: >= 2 programs with output)"
    )
    timeout = 120.0

    def cases(self, tier: str, seed: int) -> list[dict]:
        rng = random.Random(f"C17:{seed}")
        th = tier == "thorough"
        seeds = list(range(16)) if th else [0, 1, 2, 3, 5, 7, 11, 13]
        recs = corpus_recs() + grid_recs(["symmetry", "minmax", "sumchains", "duplication", "cleanup", "unused", "projection", "domains", "inline", "math"])
        corp = corpus_recs()
        order = grid_recs(["order"])  # programs with several candidates / collections to order: always, both trait sets
        order_ids = {r["id"] for r in order}
        sel = order + (recs if th else pick(corp, 140, rng) + pick(recs, 120, rng))
        out = []
        for rec in sel:
            inn, outp = decl_of(rec)
            for tr, lab in ((list(TRAITS), "all"), (list(DEFAULT_TRAITS), "default")):
                if lab == "default" and not th and rec["id"] not in order_ids and rng.random() < 0.5:
                    continue
                for h in seeds:
                    c = opt_case("C17", f"{rec['id']}|{lab}|h{h}", rec["program"], tr, inn, outp, None, [], 0, seed, tag=rec.get("tag"), allow_partial_in=True)
                    c["hashseed"] = h
                    c["want_output"] = True
                    c["base"] = f"{rec['id']}|{lab}"
                    out.append(c)
        # histories
        pool = [r for r in corp if r["trait"] in TRAITS]
        for k in range(12 if th else 4):
            progs = pick(pool, 14 if th else 10, rng)
            plist = []
            for r in progs:
                inn, outp = decl_of(r)
                plist.append({"program": r["program"], "in": inn, "out": outp, "traits": list(TRAITS) if k % 2 == 0 else list(DEFAULT_TRAITS)})
            idx = list(range(len(plist)))
            orders = [list(idx), list(reversed(idx))]
            for _ in range(2 if th else 1):
                o = list(idx)
                rng.shuffle(o)
                orders.append(o + o[:3])
            out.append(
                {
                    "id": f"history|{k}",
                    "prop": "C17",
                    "kind": "history",
                    "programs": plist,
                    "orders": orders,
                    "fresh": pick(idx, 4 if th else 2, rng),
                    "gc": True,
                    "fresh_worker": True,
                    "hashseed": seeds[k % len(seeds)],
                    "cli_hashseed": seeds[(k + 3) % len(seeds)],
                    "timeout": 300,
                }
            )
        # the command line under different hash seeds
        for rec in pick(corp, 40 if th else 6, rng):
            inn, outp = decl_of(rec)
            for h in seeds[: 6 if th else 3]:
                out.append(
                    {
                        "id": f"{rec['id']}|cli|h{h}",
                        "prop": "C17",
                        "kind": "cli",
                        "program": rec["program"],
                        "args": cli_args(list(TRAITS), inn, outp),
                        "expect": {"traits": list(TRAITS), "in": inn, "out": outp, "valid": True},
                        "cli_hashseed": h,
                        "hashseed": seeds[0],
                        "base": f"{rec['id']}|all",
                        "want_output": True,
                    }
                )
        return out

    def nontrivial(self, case: dict, res: dict) -> bool:
        if case.get("kind") in ("history", "cli"):
            return bool(res.get("nontrivial"))
        return bool(res.get("changed"))

    def post(self, results: list[tuple]) -> list[dict]:
        groups: dict = {}
        for case, res in results:
            if "base" not in case or res.get("verdict") == "inconclusive":
                continue
            text = res.get("output")
            if text is None:
                continue
            if case.get("kind") == "cli":
                text = text  # CLI prints a trailing newline per statement
                norm = text
            else:
                norm = "".join(line + "\n" for line in text.split("\n")) if text else ""
            groups.setdefault(case["base"], []).append((case, norm))
        viol = []
        for base, items in groups.items():
            ref_case, ref = items[0]
            for case, text in items[1:]:
                if text != ref:
                    import difflib

                    diff = list(difflib.unified_diff(ref.splitlines(), text.splitlines(), ref_case["id"], case["id"], lineterm="", n=0))[:12]
                    viol.append({"property": "C17", "kind": "output-depends-on-hash-seed-or-process", "case": case, "other": ref_case["id"], "diff": diff})
                    break
        self.groups_compared = len(groups)
        return viol


# ----------------------------------------------------------------------------------------
# C18
# ----------------------------------------------------------------------------------------


class C18(Profile):
    prop, title, design_ref = "C18", "Auto-detected input/output predicates are exactly the open and the shown ones", "9.18"
    technique = "runtime monitoring: independent reference AST collector evaluated against ngo.auto_detect_input/_output on every program of every workload"
    rule = (
        "cases = raw parses of every corpus program, every grid program, a node-kind grid placing atoms in every AST position, and single-site mutants; "
        "reference = one generic traversal (roles: positive head atom vs anything else); checked: U subset of detected inputs, predicates with a defining statement "
        "whose own body does not mention them excluded, outputs = shown signatures u predicates in #show term conditions; programs with classical negation are outside the quantifier; "
        "non-trivial = distinct program text with >= 1 open predicate or a #show statement"
    )

    def cases(self, tier: str, seed: int) -> list[dict]:
        rng = random.Random(f"C18:{seed}")
        th = tier == "thorough"
        recs = corpus_recs() + grid_recs(ALL_GRIDS)
        out = []
        for rec in recs:
            out.append({"id": f"{rec['id']}|detect", "prop": "C18", "kind": "detect", "program": rec["program"], "tag": rec.get("tag")})
        for rec, desc, text in mutants_of(recs, 30000 if th else 3000, rng):
            out.append({"id": f"{rec['id']}|mut:{desc}|detect", "prop": "C18", "kind": "detect", "program": text, "tag": "mutant"})
        return out

    def nontrivial(self, case: dict, res: dict) -> bool:
        return bool(res.get("nontrivial"))

    def sample(self, case: dict, res: dict) -> dict:
        return {"id": case["id"], "program": case["program"][:500], "reference": res.get("info"), "verdict": res.get("verdict")}


# ----------------------------------------------------------------------------------------
# C19
# ----------------------------------------------------------------------------------------

CLI_PROGRAMS = [
    # each trait changes the output of at least one of these (checked by the profile's evidence: traits_visible)
    """
b(X,Y) :- dom(X), dom(Y), X+Y > 2.
a(X,Y) :- b(X,Y), dom(X), dom(Y).
:- a(X,Y), a(X,Z), Y != Z.
unusedp(X) :- dom(X).
#show a/2.
""",
    """
{ sel(P,V) } :- skill(P,V).
best(P,X) :- person(P), X = #max { V : sel(P,V) }.
:- best(P,X), X < 2.
#show best/2.
#show sel/2.
""",
    """
{ shift(D,L) : len(L) } 1 :- day(D).
total(S) :- S = #sum { L,D : shift(D,L) }.
#minimize { L@1,D : shift(D,L) }.
:- total(S), S > 7.
#show shift/2.
""",
    """
c(X) :- d(X), e(X,Y), f(Y), Y > X.
g(X) :- d(X), e(X,Y), f(Y), Y > X, h(X).
a :- d(X), X = Y + 2, Y > 3.
k(S) :- S = #sum { W,I : w(I,W) }.
res(T) :- k(S), T = S + C, C = #count { I : w(I,_) }.
big(X,Y,Z) :- d(X), f(Y), h(Z), e(X,Y).
#show res/1.
#show c/1.
#show g/1.
#show a/0.
#show big/3.
""",
    """
p(1..3).
q(X) :- p(X), not r(X).
r(X) :- p(X), not q(X).
:- q(X), q(Y), q(Z), X != Y, X != Z, Y != Z.
aux(X) :- q(X).
final(X) :- aux(X).
#show final/1.
""",
    """
node(X) :- edge(X,_).
node(Y) :- edge(_,Y).
{ in(X) } :- node(X).
:- in(X), in(Y), edge(X,Y).
cnt(N) :- N = #count { X : in(X) }.
:~ cnt(N). [-N@2]
#show in/1.
""",
    # a predicate that is declared as input at one arity and derived at the same arity (closed-world reasoning must stay off)
    """
p(X) :- q(X), X > 3.
r(X) :- p(X), q(X).
s(X,Y) :- p(X,Y), q(X).
t(X) :- p(X,_).
#show r/1.
#show s/2.
""",
]


def expand_enable(words: list[str]) -> Any:
    """my reading of the documentation: all = nine traits, default = all but duplication, none = nothing (alone only), names = themselves, default + names = union"""
    low = [w.lower() for w in words]
    if "none" in low:
        return None if len(low) > 1 else []
    if "all" in low:
        return list(TRAITS)
    s = set()
    for w in low:
        if w == "default":
            s.update(DEFAULT_TRAITS)
        else:
            s.add(w)
    return [t for t in TRAITS if t in s]


class C19(Profile):
    prop, title, design_ref = "C19", "The command line is the API: options select exactly the documented traits", "9.19"
    technique = "runtime monitoring: black-box `python -m ngo` runs (stdout/stderr/exit captured) compared byte-for-byte with in-process optimize under an independently computed option expansion; stdout guard on every optimize"
    rule = (
        "cases = CLI invocations over 6 programs on which every trait changes the output of at least one: trait subsets spelled as name lists (all 512 in thorough, 64 in quick), "
        "keywords all/default/none alone and combined, case variants, repeated names, --input-predicates/--output-predicates in {absent, auto, empty argument, no argument, one, several, with spaces}, "
        "--log levels, invalid combinations (none + x, unknown trait, malformed predicate); expected flags/IN/OUT come from the harness's own reading of the documentation; "
        "non-trivial = distinct (argument vector, program) actually compared (valid) or rejected (invalid)"
    )
    timeout = 180.0

    def cases(self, tier: str, seed: int) -> list[dict]:
        rng = random.Random(f"C19:{seed}")
        th = tier == "thorough"
        out = []
        n = [0]

        def add(pi: int, enable: Any, inn_arg: Any, out_arg: Any, log: Any = None, valid: bool = True, exp_in: Any = "auto", exp_out: Any = "auto", note: str = "") -> None:
            args: list[str] = []
            if log is not None:
                args += ["--log", log]
            if enable is not None:
                args += ["--enable"] + list(enable)
            if inn_arg is not None:
                args += ["--input-predicates"] + ([inn_arg] if inn_arg != "<noarg>" else [])
            if out_arg is not None:
                args += ["--output-predicates"] + ([out_arg] if out_arg != "<noarg>" else [])
            traits = list(DEFAULT_TRAITS) if enable is None else expand_enable(list(enable))
            if traits is None:
                valid = False
            n[0] += 1
            out.append(
                {
                    "id": f"cli|p{pi}|{n[0]}|{note}",
                    "prop": "C19",
                    "kind": "cli",
                    "program": CLI_PROGRAMS[pi],
                    "args": args,
                    "expect": {"traits": traits or [], "in": exp_in, "out": exp_out, "valid": valid},
                }
            )

        subsets = [[t for i, t in enumerate(TRAITS) if mask >> i & 1] for mask in range(1, 512)]
        chosen = subsets if th else [[t] for t in TRAITS] + pick(subsets, 46, rng)
        for si, sub in enumerate(chosen):
            names = list(sub)
            rng.shuffle(names)
            add(si % 6, names, None, None, note="subset")
            if th and si % 4 == 0:
                add((si + 1) % 6, names, "auto", "auto", note="subset-auto")
        for pi in range(6):
            add(pi, None, None, None, note="defaults")
            add(pi, ["all"], None, None, note="all")
            add(pi, ["default"], None, None, note="default")
            add(pi, ["none"], None, None, note="none")
            add(pi, ["default", "duplication"], None, None, note="default+dup")
            # both keywords at once, in both orders and with a name in between
            add(pi, ["all", "default"], None, None, note="all+default")
            add(pi, ["default", "all"], None, None, note="default+all")
            add(pi, ["default", "cleanup", "all"], None, None, note="default+name+all")
        add(0, ["ALL"], None, None, note="case")
        add(1, ["Default", "Duplication"], None, None, note="case")
        add(2, ["NONE"], None, None, note="case")
        add(3, ["math", "math", "inline"], None, None, note="repeated")
        add(4, ["default", "default"], None, None, note="repeated-default")
        add(5, ["all", "math"], None, None, note="all+name")
        add(0, ["default", "math"], None, None, note="default+member")
        add(1, ["all", "default"], None, None, note="all+default")
        # predicate options (program 0: dom/1 open; program 1: person/1 skill/2)
        add(0, None, "dom/1", "a/2", exp_in=[["dom", 1]], exp_out=[["a", 2]], note="lists")
        add(0, None, "dom/1", "", exp_in=[["dom", 1]], exp_out=[], note="empty-out")
        add(0, None, "dom/1", "<noarg>", exp_in=[["dom", 1]], exp_out=[], note="noarg-out")
        add(0, None, "", "a/2", exp_in=[], exp_out=[["a", 2]], note="empty-in")
        add(0, None, "<noarg>", "auto", exp_in=[], exp_out="auto", note="noarg-in")
        add(0, None, "auto", "a/2,b/2", exp_in="auto", exp_out=[["a", 2], ["b", 2]], note="several")
        add(1, None, "person/1, skill/2", "best/2 ,sel/2", exp_in=[["person", 1], ["skill", 2]], exp_out=[["best", 2], ["sel", 2]], note="spaces")
        add(1, ["all"], "person/1,skill/2", "best/2", exp_in=[["person", 1], ["skill", 2]], exp_out=[["best", 2]], note="all+lists")
        add(2, ["sum_chains"], "day/1,len/1", "shift/2", exp_in=[["day", 1], ["len", 1]], exp_out=[["shift", 2]], note="single+lists")
        add(3, None, "d/1,e/2,f/1,h/1,w/2", "res/1", exp_in=[["d", 1], ["e", 2], ["f", 1], ["h", 1], ["w", 2]], exp_out=[["res", 1]], note="lists")
        add(5, None, "edge/2", "in/1", exp_in=[["edge", 2]], exp_out=[["in", 1]], note="lists")
        add(4, None, "auto", "final/1", exp_in="auto", exp_out=[["final", 1]], note="auto-in")
        add(0, None, "dom/1,b/2,b/1", "a/2", exp_in=[["dom", 1], ["b", 2], ["b", 1]], exp_out=[["a", 2]], note="same-name-two-arities-in")
        add(0, None, "dom/1", "a/2,a/1,b/2", exp_in=[["dom", 1]], exp_out=[["a", 2], ["a", 1], ["b", 2]], note="same-name-two-arities-out")
        add(6, None, "q/1,p/1,p/2", "r/1,s/2", exp_in=[["q", 1], ["p", 1], ["p", 2]], exp_out=[["r", 1], ["s", 2]], note="input-also-derived-two-arities")
        add(6, None, "q/1,p/2,p/1", "r/1,s/2", exp_in=[["q", 1], ["p", 2], ["p", 1]], exp_out=[["r", 1], ["s", 2]], note="input-also-derived-two-arities-rev")
        add(6, None, "q/1,p/2", "r/1,s/2", exp_in=[["q", 1], ["p", 2]], exp_out=[["r", 1], ["s", 2]], note="input-one-arity")
        add(6, None, "q/1, q/1 ,p/1", "r/1", exp_in=[["q", 1], ["q", 1], ["p", 1]], exp_out=[["r", 1]], note="duplicate-entry")
        for lvl in ("error", "warning", "info", "debug", "DEBUG", "Info"):
            add(rng.randrange(6), None, None, None, log=lvl, note=f"log-{lvl}")
            add(1, ["all"], "auto", "auto", log=lvl, note=f"log-{lvl}-all")
        # invalid combinations
        add(0, ["none", "math"], None, None, valid=False, note="none+x")
        add(0, ["math", "none"], None, None, valid=False, note="x+none")
        add(0, ["none", "all"], None, None, valid=False, note="none+all")
        add(0, ["bogus"], None, None, valid=False, note="unknown-trait")
        add(0, ["math", "mathh"], None, None, valid=False, note="unknown-trait2")
        add(0, None, "dom", None, valid=False, note="malformed-pred")
        add(0, None, "dom/x", None, valid=False, note="malformed-arity")
        add(0, None, None, "a/2/3", valid=False, note="malformed-out")
        add(0, None, None, None, log="loud", valid=False, note="bad-log")
        for c in out:
            if c["expect"]["traits"] is None:
                c["expect"]["traits"] = []
        return out

    def nontrivial(self, case: dict, res: dict) -> bool:
        cnt = res.get("counters", {})
        return bool(cnt.get("cli_compared") or cnt.get("cli_invalid_checked"))

    def sample(self, case: dict, res: dict) -> dict:
        return {"id": case["id"], "args": case["args"], "expect": case["expect"], "rc": res.get("info", {}).get("rc"), "changed_by": res.get("changed"), "verdict": res.get("verdict")}


# ----------------------------------------------------------------------------------------
# C20
# ----------------------------------------------------------------------------------------


class C20(Profile):
    prop, title, design_ref = "C20", "Generated domain and order predicates describe the real domain", "9.20"
    technique = "runtime monitoring: wrappers on DomainPredicates record which auxiliary predicate stands for which domain; extension checker over clingo answer sets of the stage right after the emitting pass"
    rule = (
        "cases = (corpus of symmetry/minmax/sum_chains/dependency tests u domains/minmax/sumchains/symmetry grids u mutants) x {only symmetry, only minmax_chains, only sum_chains, all three}; "
        "for every answer set of the stage emitted by the pass and every recorded (pred, dom, min, max, next): p(t) in M => dom(t) in M, dom equal across answer sets, "
        "min/max = least/greatest, next = covering relation per group under clingo's term order; "
        "non-trivial = distinct case in which >= 1 domain/order event was recorded and checked on >= 1 instance"
    )
    timeout = 90.0

    def cases(self, tier: str, seed: int) -> list[dict]:
        rng = random.Random(f"C20:{seed}")
        th = tier == "thorough"
        n_inst = 14 if th else 6
        recs = [r for r in corpus_recs() if r["trait"] in ("symmetry", "minmax_chains", "sum_chains", "dependency")] + grid_recs(["domains", "minmax", "sumchains", "symmetry", "objectives"]) + [r for r in grid_recs(["extra"]) if r["trait"] in ("symmetry", "minmax_chains", "sum_chains")]
        sel = recs if th else pick(recs, 800, rng)
        three = ["symmetry", "minmax_chains", "sum_chains"]
        out = []
        for rec in sel:
            inn, outp = decl_of(rec)
            own = own_traits(rec)
            configs = [three] + ([[t] for t in three] if th else [own if own[0] in three else [rng.choice(three)]])
            seen = set()
            for tr in configs:
                if tuple(tr) in seen:
                    continue
                seen.add(tuple(tr))
                out.append(opt_case("C20", f"{rec['id']}|{'+'.join(tr)}", rec["program"], tr, inn, outp, None, ["c20"], n_inst, seed, tag=rec.get("tag")))
        for rec, desc, text in mutants_of(recs, 4000 if th else 300, rng):
            inn = cases.explicit_in(text, rec.get("in"))
            outp = [list(p) for p in cases.head_preds(text)]
            out.append(opt_case("C20", f"{rec['id']}|mut:{desc}|three", text, three, inn, outp, None, ["c20"], max(4, n_inst - 2), seed, tag="mutant"))
        return out

    def nontrivial(self, case: dict, res: dict) -> bool:
        return res.get("domain_events", 0) > 0 and res.get("counters", {}).get("c20_instances", 0) > 0


for _cls in (C01, C02, C03, C04, C05, C06, C07, C17, C18, C19, C20):
    register(_cls())
