"""Worker process: JSONL cases on stdin, one JSON result line per case on the protocol fd."""
from __future__ import annotations

import faulthandler
import json
import os
import resource
import sys
import traceback


def main() -> None:
    mem = int(sys.argv[1]) if len(sys.argv) > 1 else 0
    if mem:
        try:
            resource.setrlimit(resource.RLIMIT_AS, (mem, mem))
        except (ValueError, OSError):
            pass
    proto = os.fdopen(os.dup(1), "w")
    devnull = os.open(os.devnull, os.O_WRONLY)
    os.dup2(devnull, 1)  # nothing the code under test prints may reach the protocol
    sys.stdout = open(os.devnull, "w")
    faulthandler.enable(file=sys.stderr)
    import logging

    logging.disable(logging.CRITICAL)
    from vflib import evalcase

    for line in sys.stdin:
        line = line.strip()
        if not line:
            continue
        case = json.loads(line)
        try:
            res = evalcase.evaluate(case)
        except MemoryError:
            res = {"id": case.get("id"), "verdict": "inconclusive", "reason": "memory-limit"}
        except Exception as exc:  # pylint: disable=broad-exception-caught
            res = {
                "id": case.get("id"),
                "verdict": "inconclusive",
                "reason": "harness-error",
                "error": f"{type(exc).__name__}: {exc}"[:300],
                "tb": traceback.format_exc()[-1500:],
            }
        proto.write(json.dumps(res, default=str) + "\n")
        proto.flush()


if __name__ == "__main__":
    main()
