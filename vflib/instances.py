"""Boundary-biased instance generator (DESIGN section 4).

Facts are drawn per *join class*: argument positions that share a variable in some statement
draw from the same value pool, so that joins fire.  A class containing a position used in
arithmetic/comparisons only gets integers (the properties' side condition).
"""
from __future__ import annotations

import itertools
import random
from typing import Optional

from clingo.ast import AST, ASTType

from . import refast

INT_PROFILES = [[1, 2], [1, 2, 3], [-2, -1, 0, 1, 7], [0, 1, 2, 3, -1, 5], [2, 4, 5], [0, 1], [3, 6, 7, 9]]
SYM_POOL = ["a", "b", "c"]
FAMILIES = ["empty", "one", "small", "medium", "full", "copies", "const", "small", "medium", "sparse", "negative", "full", "one", "grouped", "const", "medium"]


class _UF:
    def __init__(self) -> None:
        self.p: dict = {}

    def find(self, x):
        self.p.setdefault(x, x)
        while self.p[x] != x:
            self.p[x] = self.p[self.p[x]]
            x = self.p[x]
        return x

    def union(self, a, b) -> None:
        ra, rb = self.find(a), self.find(b)
        if ra != rb:
            self.p[ra] = rb


def _int_constants(prg: list[AST]) -> list[int]:
    out = set()
    for stm in prg:
        if stm.ast_type not in (ASTType.Rule, ASTType.Minimize):
            continue
        for n in refast.walk(stm):
            if n.ast_type == ASTType.SymbolicTerm:
                s = str(n.symbol)
                if s.lstrip("-").isdigit() and abs(int(s)) < 1000:
                    out.add(int(s))
    return sorted(out)


def _sym_constants(prg: list[AST]) -> list[str]:
    out = set()
    for stm in prg:
        if stm.ast_type not in (ASTType.Rule, ASTType.Minimize):
            continue
        for n in refast.walk(stm):
            if n.ast_type == ASTType.SymbolicAtom:
                sym = n.symbol
                while sym.ast_type == ASTType.UnaryOperation:
                    sym = sym.argument
                if sym.ast_type != ASTType.Function:
                    continue
                for arg in sym.arguments:
                    if arg.ast_type == ASTType.SymbolicTerm and not str(arg.symbol).lstrip("-").isdigit():
                        s = str(arg.symbol)
                        if s and (s[0].islower() or s[0] == '"'):
                            out.add(s)
                    elif arg.ast_type == ASTType.Function and not arg.arguments and arg.name:
                        out.add(arg.name)
    return sorted(out)


def analyse(prg: list[AST]) -> dict:
    numeric = refast.numeric_positions(prg)
    uf = _UF()
    for si, stm in enumerate(prg):
        for n in refast.walk(stm):
            if n.ast_type != ASTType.SymbolicAtom:
                continue
            sig = refast.atom_sig(n)
            if not sig:
                continue
            sym = n.symbol
            while sym.ast_type == ASTType.UnaryOperation:
                sym = sym.argument
            name = ("-" if sig[2] else "") + sig[0]
            for i, arg in enumerate(sym.arguments):
                uf.find((name, sig[1], i))
                for v in set(refast.variables(arg)):
                    if v != "_":
                        uf.union((name, sig[1], i), ("var", si, v))
    # self joins: positions in which two atoms over one predicate in one statement differ (p(A,X), p(B,X) -> position 0)
    selfjoin: dict = {}
    for stm in prg:
        by_sig: dict = {}
        for n in refast.walk(stm):
            if n.ast_type != ASTType.SymbolicAtom:
                continue
            sig = refast.atom_sig(n)
            if not sig or sig[1] == 0:
                continue
            sym = n.symbol
            while sym.ast_type == ASTType.UnaryOperation:
                sym = sym.argument
            by_sig.setdefault((("-" if sig[2] else "") + sig[0], sig[1]), []).append([str(a) for a in sym.arguments])
        for key, occ in by_sig.items():
            for a, b in itertools.combinations(occ, 2):
                diff = {i for i in range(len(a)) if a[i] != b[i]}
                if diff:
                    selfjoin.setdefault(key, set()).update(diff)
    classes: dict = {}
    for key in list(uf.p):
        if key[0] != "var":
            classes.setdefault(uf.find(key), []).append(key)
    numeric_classes = set()
    for root, members in classes.items():
        if any((m[0].lstrip("-"), m[1], m[2]) in numeric for m in members):
            numeric_classes.add(root)
    return {"uf": uf, "numeric_classes": numeric_classes, "ints": _int_constants(prg), "syms": _sym_constants(prg), "selfjoin": selfjoin}


def gen_instances(
    prg: list[AST],
    fact_preds: list[tuple],
    n: int,
    seed: int,
    allow_function_terms: bool = False,
    info: Optional[dict] = None,
) -> list[list[str]]:
    """n instances (lists of fact strings without dot) over fact_preds"""
    info = info or analyse(prg)
    uf = info["uf"]
    fact_preds = sorted(set((p[0], p[1]) for p in fact_preds))
    out: list[list[str]] = []
    seen = set()
    for k in range(n * 3):
        if len(out) >= n:
            break
        rng = random.Random(f"{seed}:{k}")
        fam = FAMILIES[k % len(FAMILIES)]
        if info.get("selfjoin"):
            if k % 2 == 1 and k > 1:
                fam = "copies"  # programs with self joins: every second instance is built from copies
        elif fam == "copies":
            fam = "grouped"
        if fam == "empty":
            inst: list[str] = []
        else:
            profile = list(rng.choice(INT_PROFILES))
            if fam == "negative":
                profile = [-3, -2, -1, 0, 1]
            if fam == "const" and info["ints"]:
                cs = info["ints"]
                profile = sorted(set(cs + [c + d for c in cs for d in (-1, 1)]))
                if len(profile) > 7:
                    profile = sorted(rng.sample(profile, 7))
            all_int = rng.random() < 0.4
            pools: dict = {}

            def pool(pos: tuple) -> list:
                root = uf.find(pos)
                if root not in pools:
                    size = {"one": 1, "small": 2, "sparse": 3, "copies": 4}.get(fam, rng.choice([2, 3]))
                    if root in info["numeric_classes"] or all_int:
                        vals = rng.sample(profile, min(size, len(profile)))
                    else:
                        base = list(SYM_POOL)
                        for s in info["syms"]:
                            if s not in base:
                                base.insert(0, s)
                        if allow_function_terms and rng.random() < 0.3:
                            base = base + ["f(1)", "f(a)"]
                        vals = rng.sample(base, min(size, len(base)))
                    pools[root] = [str(v) for v in vals]
                return pools[root]

            inst = []
            for name, arity in fact_preds:
                if arity == 0:
                    if rng.random() < 0.6:
                        inst.append(name)
                    continue
                cols = [pool((name, arity, i)) for i in range(arity)]
                vary = sorted(info.get("selfjoin", {}).get((name, arity), ())) if fam == "copies" else []
                if vary:
                    # k copies of a base tuple that differ in the self-joined positions only; every predicate draws its own
                    # values, so two joins over the same compared variables see different value sets
                    for _ in range(rng.choice([1, 1, 2])):
                        base = [rng.choice(c) for c in cols]
                        copies = rng.choice([1, 2, 2, 3])
                        if rng.random() < 0.5:  # the varied positions change together
                            picks = [rng.sample(cols[i], min(copies, len(cols[i]))) for i in vary]
                            for j in range(min(len(p) for p in picks)):
                                tup = list(base)
                                for i, p in zip(vary, picks):
                                    tup[i] = p[j]
                                inst.append(f"{name}({','.join(tup)})")
                        else:  # one position at a time
                            i = rng.choice(vary)
                            for v in rng.sample(cols[i], min(copies, len(cols[i]))):
                                tup = list(base)
                                tup[i] = v
                                inst.append(f"{name}({','.join(tup)})")
                    continue
                cand = list(itertools.islice(itertools.product(*cols), 64))
                rng.shuffle(cand)
                if fam == "one":
                    take = 1
                elif fam == "small":
                    take = rng.choice([1, 2])
                elif fam == "sparse":
                    take = rng.choice([0, 1, 2])
                elif fam == "full":
                    take = min(len(cand), 6)
                elif fam == "grouped":
                    # some groups (first column value) get several tuples, others none
                    firsts = sorted(set(c[0] for c in cand))
                    keep = set(rng.sample(firsts, max(1, len(firsts) - 1))) if len(firsts) > 1 else set(firsts)
                    cand = [c for c in cand if c[0] in keep]
                    take = min(len(cand), rng.choice([2, 3, 4]))
                else:
                    take = min(len(cand), rng.choice([1, 2, 3, 4]))
                for tup in cand[:take]:
                    inst.append(f"{name}({','.join(tup)})")
                if inst and rng.random() < 0.1:
                    inst.append(inst[-1])  # a duplicate fact
        key = tuple(sorted(set(inst)))
        if key in seen:
            continue
        seen.add(key)
        out.append(inst)
    return out
