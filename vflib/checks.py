"""Offline checkers over one monitored run (DESIGN sections 4, 6, 9)."""
from __future__ import annotations

import hashlib
from collections import Counter
from typing import Any, Optional

from clingo.ast import AST, ASTType, Location, Position, ProgramBuilder, Transformer, parse_string
import clingo

from . import instances, monitors, oracle, refast

LOC = Location(Position("<string>", 1, 1), Position("<string>", 1, 1))


class _Relocate(Transformer):
    def visit_Location(self, loc: Any) -> Any:  # pragma: no cover - clingo calls by attribute
        return LOC


def relocate(stm: AST) -> AST:
    """give every node of the statement the same location (as API-built ASTs have)"""

    def rec(node: AST) -> AST:
        upd = {}
        for key in node.keys():
            val = getattr(node, key)
            if key == "location":
                upd[key] = LOC
            elif isinstance(val, AST):
                upd[key] = rec(val)
            elif key in node.child_keys and val is not None and not isinstance(val, (str, int)):
                try:
                    upd[key] = [rec(v) if isinstance(v, AST) else v for v in val]
                except TypeError:
                    pass
        return node.update(**upd)

    return rec(stm)


def preds(pairs: Any) -> list:
    from ngo.utils.ast import Predicate

    return [Predicate(str(n), int(a)) for n, a in pairs]


# ----------------------------------------------------------------------------------------
# context of one case
# ----------------------------------------------------------------------------------------


class Ctx:
    """everything derived from a case that several checkers share"""

    def __init__(self, case: dict):
        self.case = case
        text = case["program"]
        layout = case.get("layout", "normal")
        if layout == "oneline":
            text = " ".join(line.split("%")[0] for line in text.splitlines())
        self.text = text
        self.parse_msgs: list = []
        self.source: list[AST] = []
        try:
            parse_string(text, self.source.append, logger=lambda c, m: self.parse_msgs.append((c.name, m)))
            self.parse_ok = True
        except RuntimeError as exc:
            self.parse_ok = False
            self.parse_msgs.append(("exc", str(exc)))
        if layout == "loc" and self.parse_ok:
            self.source = [relocate(s) for s in self.source]
        self.source_text = "\n".join(str(s) for s in self.source)
        self.voc_source = refast.vocabulary(self.source)
        self.open = refast.open_predicates(self.source) if self.parse_ok else set()
        self.consts = case.get("consts") or {}
        self.rec: Optional[monitors.RunRecord] = None
        self.inp: list = []
        self.out: list = []
        self._instances: Optional[list] = None
        self._src_solutions: dict = {}
        self.counters: Counter = Counter()
        self.safe: Optional[bool] = None
        self.safe_detail = ""

    # -- declarations ------------------------------------------------------------------
    def declare(self) -> None:
        from ngo.utils.globals import auto_detect_input, auto_detect_output

        case = self.case
        self.auto_in = case.get("in", "auto") == "auto"
        self.auto_out = case.get("out", "auto") == "auto"
        self.inp = auto_detect_input(self.source) if self.auto_in else preds(case["in"])
        self.out = auto_detect_output(self.source) if self.auto_out else preds(case["out"])
        self.in_set = {(p.name, p.arity) for p in self.inp}
        self.out_set = {(p.name, p.arity) for p in self.out}

    def check_safe(self) -> bool:
        """the source must be accepted and grounded by clingo (empty instance)"""
        if self.safe is None:
            res = oracle.solve(self.text, [], self.consts, max_models=1, timeout=10)
            self.safe = res.status in ("ok", "capped", "timeout")
            self.safe_detail = res.error[:200]
            if self.safe and any(c == "RuntimeError" for c, _ in res.messages):
                self.safe = False
                self.safe_detail = "runtime error message"
        return self.safe

    def run(self) -> monitors.RunRecord:
        if self.rec is None:
            protected = set(self.voc_source) | self.in_set | self.out_set
            self.rec = monitors.run_optimize(list(self.source), self.inp, self.out, self.case["traits"], protected)
        return self.rec

    @property
    def result_text(self) -> str:
        assert self.rec is not None and self.rec.result is not None
        return "\n".join(str(s) for s in self.rec.result)

    # -- instances -----------------------------------------------------------------------
    def fact_preds(self) -> list:
        policy = self.case.get("facts", "in")
        if policy == "any":
            return sorted(p for p in self.voc_source if not p[0].startswith("-"))
        base = set(self.in_set) | set(self.open)
        # only predicates that occur in the program can matter; others would be filtered identically on both sides
        return sorted(base)

    def instances(self) -> list:
        if self._instances is None:
            explicit = self.case.get("instances")
            n = int(self.case.get("n_inst", 6))
            gen = instances.gen_instances(
                self.source,
                self.fact_preds(),
                n,
                int(self.case.get("inst_seed", 0)),
                allow_function_terms=self.case.get("facts") == "any",
            )
            self._instances = [list(i) for i in (explicit or [])] + gen
        return self._instances

    def solve_source(self, idx: int) -> oracle.SolveResult:
        if idx not in self._src_solutions:
            self._src_solutions[idx] = oracle.solve(self.text, self.instances()[idx], self.consts)
        return self._src_solutions[idx]

    def usable(self, idx: int) -> Optional[str]:
        """None if the instance is inside the quantifier, else the reason it is discarded"""
        res = self.solve_source(idx)
        if res.status == "ground_error" or res.status == "add_error":
            return "source-does-not-ground"
        if res.undefined:
            return "operation-undefined"
        if any(c == "RuntimeError" for c, _ in res.messages):
            return "source-runtime-message"
        if res.status == "capped":
            return "capped"
        if res.status == "timeout":
            return "timeout"
        return None


# ----------------------------------------------------------------------------------------
# equivalence checker
# ----------------------------------------------------------------------------------------


def mode_voc(ctx: Ctx, mode: dict) -> tuple[Optional[set], bool]:
    kind = mode["voc"]
    if kind == "out":
        return set(ctx.out_set), False
    if kind == "inout":
        return set(ctx.out_set) | set(ctx.in_set) | set(ctx.open), False
    if kind == "source":
        return set(ctx.voc_source), False
    if kind == "shown":
        # auto-detected output: what the #show statements display; without any #show nothing is declared observable,
        # only satisfiability (and costs) can be compared
        if not any(s.ast_type in (ASTType.ShowSignature, ASTType.ShowTerm) for s in ctx.source):
            return set(), False
        sigs = {(("" if s.positive else "-") + s.name, s.arity) for s in ctx.source if s.ast_type == ASTType.ShowSignature}
        return sigs, True
    raise ValueError(kind)


def compare(ctx: Ctx, mode: dict, src: oracle.SolveResult, res: oracle.SolveResult) -> Optional[dict]:
    voc, shown = mode_voc(ctx, mode)
    with_cost = bool(mode.get("cost"))
    ps = oracle.project(src.models, voc, with_cost, shown)
    pr = oracle.project(res.models, voc, with_cost, shown)
    return oracle.diff_models(ps, pr, bijection=mode.get("kind") == "bij")


class _AlphaLocals(Transformer):
    """renames the variables that are local to a conditional literal / aggregate element, a different name per scope"""

    def __init__(self, glob: set) -> None:
        self.glob = glob
        self.k = 0
        self.suffix: Optional[str] = None

    def _scope(self, node: AST) -> AST:
        if self.suffix is not None:
            return node.update(**self.visit_children(node))
        self.k += 1
        self.suffix = f"_ALPHA{self.k}"
        try:
            return node.update(**self.visit_children(node))
        finally:
            self.suffix = None

    visit_ConditionalLiteral = _scope
    visit_BodyAggregateElement = _scope
    visit_HeadAggregateElement = _scope

    def visit_Variable(self, var: AST) -> AST:
        if self.suffix and var.name != "_" and var.name not in self.glob:
            return var.update(name=var.name + self.suffix)
        return var


def _global_variables(stm: AST) -> set:
    """variables with an occurrence outside of every conditional literal and aggregate element"""
    out: set = set()

    def rec(node: Any) -> None:
        if isinstance(node, AST):
            if node.ast_type in (ASTType.ConditionalLiteral, ASTType.BodyAggregateElement, ASTType.HeadAggregateElement):
                return
            if node.ast_type == ASTType.Variable:
                out.add(node.name)
                return
            for key in node.child_keys:
                rec(getattr(node, key))
        elif isinstance(node, (list, tuple)) or hasattr(node, "__iter__") and not isinstance(node, str):
            for x in node:
                rec(x)

    rec(stm)
    return out


def alpha_locals(stmts: list[AST]) -> str:
    """the same program with every local variable renamed apart (one fresh name per scope); the meaning is unchanged"""
    out = []
    for stm in stmts:
        if stm.ast_type in (ASTType.Rule, ASTType.Minimize):
            stm = _AlphaLocals(_global_variables(stm))(stm)
        out.append(str(stm))
    return "\n".join(out)


def oracle_alpha_unstable(ctx: Ctx, idx: int) -> bool:
    """oracle sanity check, run when a difference is found: clingo must give the source the same answer sets after its
    local variables are renamed apart.  (clingo 5.8 does not when a head element condition and a body aggregate use the
    same local variable name: '{ h(A,X) : d(X,D) } :- q(A,B), #count { X : u(X,B) } >= 1, s(A,D).' loses h.)  An
    instance on which the oracle contradicts itself decides nothing and is discarded."""
    key = ("alpha", idx)
    if key not in ctx._src_solutions:
        src = ctx.solve_source(idx)
        try:
            ren = oracle.solve(alpha_locals(ctx.source), ctx.instances()[idx], ctx.consts)
        except Exception:  # pylint: disable=broad-exception-caught
            ctx._src_solutions[key] = False
            return False
        unstable = False
        if ren.status == "ok" and src.status == "ok":
            full = {"voc": "source", "kind": "set", "cost": True}
            unstable = compare(ctx, full, src, ren) is not None
        ctx._src_solutions[key] = unstable
    return bool(ctx._src_solutions[key])


def check_equiv(ctx: Ctx, mode: dict, program_text: Optional[str] = None, label: str = "result") -> list[dict]:
    """compare source and (result or given stage text) on every usable instance"""
    text = ctx.result_text if program_text is None else program_text
    out: list[dict] = []
    for idx, inst in enumerate(ctx.instances()):
        why = ctx.usable(idx)
        if why:
            ctx.counters[f"discard:{why}"] += 1
            continue
        src = ctx.solve_source(idx)
        res = oracle.solve(text, inst, ctx.consts)
        if res.status in ("capped", "timeout"):
            ctx.counters[f"discard:result-{res.status}"] += 1
            continue
        ctx.counters["instances_compared"] += 1
        ctx.counters["answer_sets_compared"] += len(src.models) + len(res.models)
        if src.models or res.models:
            ctx.counters["instances_with_models"] += 1
        if res.status != "ok" or any(c == "RuntimeError" for c, _ in res.messages):
            out.append(
                {
                    "kind": "result-does-not-ground",
                    "instance": inst,
                    "error": res.error[:300] or str([m for c, m in res.messages if c == "RuntimeError"][:2])[:300],
                    "label": label,
                }
            )
            continue
        diff = compare(ctx, mode, src, res)
        if diff:
            if oracle_alpha_unstable(ctx, idx):
                ctx.counters["discard:oracle-contradicts-itself-after-renaming-locals"] += 1
                continue
            out.append({"kind": "not-equivalent", "instance": inst, "diff": diff, "label": label, "mode": mode, "result_undefined": bool(res.undefined)})
    return out


def blame(ctx: Ctx, mode: dict, inst: list, only_unsafe: bool = False) -> dict:
    """first stage of the recorded trace that is not equivalent to the source on this instance"""
    rec = ctx.rec
    assert rec is not None
    src = oracle.solve(ctx.text, inst, ctx.consts)
    prev = rec.stages[0]
    for stage in rec.stages[1:]:
        if stage["stmts"] != prev["stmts"]:
            text = "\n".join(stage["stmts"])
            res = oracle.solve(text, inst, ctx.consts)
            bad = None
            if res.status != "ok" or any(c == "RuntimeError" for c, _ in res.messages):
                bad = {"kind": "unsafe-output", "error": res.error[:200] or str([m for c, m in res.messages if c == "RuntimeError"][:1])[:200]}
            elif not only_unsafe:
                d = compare(ctx, mode, src, res)
                if d:
                    bad = {"kind": "not-equivalent", "diff": d}
            if bad:
                before, after = prev["stmts"], stage["stmts"]
                cb, ca = Counter(before), Counter(after)
                return {
                    "step": stage["name"],
                    "iter": stage["iter"],
                    "removed": list((cb - ca).elements())[:8],
                    "added": list((ca - cb).elements())[:30],
                    **bad,
                }
        prev = stage
    return {"step": "unknown", "iter": -1, "removed": [], "added": []}


def check_stepwise(ctx: Ctx, mode: dict) -> list[dict]:
    """every changing step of the trace compared with its predecessor (thorough tiers)"""
    rec = ctx.rec
    assert rec is not None
    out: list[dict] = []
    for idx, inst in enumerate(ctx.instances()):
        if ctx.usable(idx):
            continue
        prev_stage = rec.stages[0]
        prev_res = ctx.solve_source(idx)
        for stage in rec.stages[1:]:
            if stage["stmts"] == prev_stage["stmts"]:
                continue
            res = oracle.solve("\n".join(stage["stmts"]), inst, ctx.consts)
            ctx.counters["steps_compared"] += 1
            if res.status in ("capped", "timeout"):
                break
            if res.status != "ok" or any(c == "RuntimeError" for c, _ in res.messages):
                cb, ca = Counter(prev_stage["stmts"]), Counter(stage["stmts"])
                out.append(
                    {
                        "kind": "step-unsafe-output",
                        "step": stage["name"],
                        "iter": stage["iter"],
                        "instance": inst,
                        "error": res.error[:200],
                        "removed": list((cb - ca).elements())[:8],
                        "added": list((ca - cb).elements())[:30],
                    }
                )
                break
            if prev_res.ok:
                d = compare(ctx, mode, prev_res, res)
                if d and oracle_alpha_unstable(ctx, idx):
                    ctx.counters["discard:oracle-contradicts-itself-after-renaming-locals"] += 1
                    break
                if d:
                    cb, ca = Counter(prev_stage["stmts"]), Counter(stage["stmts"])
                    out.append(
                        {
                            "kind": "step-not-equivalent",
                            "step": stage["name"],
                            "iter": stage["iter"],
                            "instance": inst,
                            "diff": d,
                            "removed": list((cb - ca).elements())[:8],
                            "added": list((ca - cb).elements())[:30],
                            "result_undefined": bool(res.undefined),
                        }
                    )
            prev_stage, prev_res = stage, res
    return out


# ----------------------------------------------------------------------------------------
# C04: validity, safety, faithful printing
# ----------------------------------------------------------------------------------------


def check_c04(ctx: Ctx) -> list[dict]:
    rec = ctx.rec
    assert rec is not None and rec.result is not None
    out: list[dict] = []
    # 1. every statement can be added to a program builder
    ctl = clingo.Control(["0"], logger=lambda c, m: None)
    try:
        with ProgramBuilder(ctl) as bld:
            for stm in rec.result:
                try:
                    bld.add(stm)
                    ctx.counters["c04_builder_adds"] += 1
                except (RuntimeError, TypeError, AttributeError) as exc:
                    out.append({"kind": "builder-rejects", "stmt": str(stm), "error": str(exc)[:200]})
    except RuntimeError as exc:
        out.append({"kind": "builder-rejects", "stmt": "<end of program>", "error": str(exc)[:200]})
    # 2. printed form parses back to the same text
    for stm in rec.result:
        text = str(stm)
        back: list[AST] = []
        try:
            parse_string(text, back.append, logger=lambda c, m: None)
        except RuntimeError as exc:
            out.append({"kind": "print-not-parsable", "stmt": text, "error": str(exc)[:200]})
            continue
        ctx.counters["c04_roundtrips"] += 1
        body = [str(b) for b in back if not (b.ast_type == ASTType.Program and stm.ast_type != ASTType.Program)]
        if stm.ast_type == ASTType.Program:
            body = [str(b) for b in back][-1:]
        if body != [text]:
            out.append({"kind": "print-not-faithful", "stmt": text, "reparsed": body[:3]})
    # 3. AST load and text load ground and agree, for every usable instance
    text = ctx.result_text
    for idx, inst in enumerate(ctx.instances()):
        if ctx.usable(idx):
            continue
        via_text = oracle.solve(text, inst, ctx.consts)
        via_ast = oracle.solve(rec.result, inst, ctx.consts)
        if "capped" in (via_text.status, via_ast.status) or "timeout" in (via_text.status, via_ast.status):
            ctx.counters["discard:result-capped"] += 1
            continue
        ctx.counters["c04_instances"] += 1
        ctx.counters["answer_sets_compared"] += len(via_text.models) + len(via_ast.models)
        for label, res in (("text", via_text), ("ast", via_ast)):
            errs = [m for c, m in res.messages if c == "RuntimeError"]
            if res.status != "ok" or errs:
                out.append({"kind": f"{label}-load-fails", "instance": inst, "error": (res.error or str(errs[:2]))[:300]})
        if via_text.ok and via_ast.ok:
            ct = Counter((frozenset(a[2] for a in m[0]), m[1]) for m in via_text.models)
            ca = Counter((frozenset(a[2] for a in m[0]), m[1]) for m in via_ast.models)
            if ct != ca:
                out.append({"kind": "ast-text-disagree", "instance": inst, "n_text": len(via_text.models), "n_ast": len(via_ast.models)})
    return out


# ----------------------------------------------------------------------------------------
# C07 structural monitors
# ----------------------------------------------------------------------------------------


def passthrough(prg: list[AST]) -> list[str]:
    return [str(s) for s in prg if s.ast_type in refast.PASS_THROUGH]


def check_c07_structure(ctx: Ctx) -> list[dict]:
    rec = ctx.rec
    assert rec is not None and rec.result is not None
    out: list[dict] = []
    src_heads = refast.head_predicates(ctx.source)
    res_heads = refast.head_predicates(rec.result)
    protected = set(ctx.voc_source) | ctx.in_set | ctx.out_set
    ctx.counters["c07_new_heads"] += len(res_heads - src_heads)
    for p in sorted(res_heads - src_heads):
        if p in protected:
            kind = "input-gets-defining-rule" if p in ctx.in_set else "invented-head-not-fresh"
            out.append({"kind": kind, "pred": list(p)})
    for p in sorted(ctx.in_set & res_heads):
        if p not in src_heads:
            continue
    a, b = passthrough(ctx.source), passthrough(rec.result)
    ctx.counters["c07_passthrough_stmts"] += len(a)
    if a != b:
        kind = "pass-through-changed"
        src_stmts = [s for s in ctx.source if s.ast_type in refast.PASS_THROUGH]
        unp = [s for s in refast.unpooled(src_stmts)]
        res_stmts = [s for s in rec.result if s.ast_type in refast.PASS_THROUGH]
        with_body = {ASTType.ShowTerm, ASTType.External, ASTType.Heuristic, ASTType.Edge, ASTType.ProjectAtom}
        if [str(s) for s in unp] == b:
            kind = "pass-through-unpooled"
        elif len(unp) == len(res_stmts) and all(
            str(x) == str(y) or (x.ast_type == y.ast_type and x.ast_type in with_body) for x, y in zip(unp, res_stmts)
        ):
            kind = "pass-through-atoms-rewritten"
        out.append({"kind": kind, "source": a[:10], "result": b[:10]})
    for v in rec.contract_violations:
        if v["contract"] in ("fresh_predicate", "fresh_variable", "single_purpose", "unused_protected"):
            out.append({"kind": "contract:" + v["contract"], **{k: v[k] for k in v if k != "contract"}})
    # step-wise: a statement that a step adds may only define a predicate of the source vocabulary if the step also
    # removed a statement defining it (a rewritten rule keeps its head).  An added rule for an untouched source predicate
    # means an invented name collided with it (also when the name generator was asked for another arity).
    if rec.trace_complete:
        prev, prev_asts = rec.stages[0], rec.stage_asts[0]
        for stage, asts in zip(rec.stages[1:], rec.stage_asts[1:]):
            if stage["stmts"] != prev["stmts"]:
                before, after = Counter(prev["stmts"]), Counter(stage["stmts"])
                removed = [x for x in prev_asts if (before - after)[str(x)] > 0]
                added = [x for x in asts if (after - before)[str(x)] > 0]
                removed_heads = refast.head_predicates(removed)
                ctx.counters["c07_steps_checked"] += 1
                for stm in added:
                    for hp in sorted(refast.head_predicates([stm]) - removed_heads):
                        if hp in protected:
                            out.append({"kind": "source-predicate-gains-rule", "pred": list(hp), "stmt": str(stm)[:300], "step": stage["name"], "iter": stage["iter"]})
            prev, prev_asts = stage, asts
    return out


# ----------------------------------------------------------------------------------------
# C18 reference collector
# ----------------------------------------------------------------------------------------


def check_c18(ctx: Ctx) -> list[dict]:
    from ngo.utils.globals import auto_detect_input, auto_detect_output

    out: list[dict] = []
    prg = ctx.source
    got_in = {(p.name, p.arity) for p in auto_detect_input(prg)}
    got_out_list = auto_detect_output(prg)
    got_out = {(p.name, p.arity) for p in got_out_list}
    ctx.counters["c18_evaluations"] += 1
    u = refast.open_predicates(prg)
    missing = sorted(u - got_in)
    if missing:
        out.append({"kind": "open-predicate-missed", "preds": [list(p) for p in missing]})
    # p with a defining statement whose own body does not mention p must be excluded
    for stm in refast.unpooled(prg):
        if stm.ast_type != ASTType.Rule:
            continue
        heads = {(("-" if s[2] else "") + s[0], s[1]) for s in (refast.atom_sig(h) for h in refast.positive_head_atoms(stm)) if s}
        body_occ = set()
        for b in stm.body:
            for n in refast.walk(b):
                if n.ast_type == ASTType.SymbolicAtom:
                    s = refast.atom_sig(n)
                    if s:
                        body_occ.add((("-" if s[2] else "") + s[0], s[1]))
        for p in heads - body_occ:
            if p in got_in:
                out.append({"kind": "defined-predicate-reported", "pred": list(p), "stmt": str(stm)})
    ref_out = set()
    for stm in refast.unpooled(prg):
        if stm.ast_type == ASTType.ShowSignature:
            ref_out.add((stm.name, stm.arity))
        elif stm.ast_type == ASTType.ShowTerm:
            for b in stm.body:
                for n in refast.walk(b):
                    if n.ast_type == ASTType.SymbolicAtom:
                        s = refast.atom_sig(n)
                        if s and not s[2]:
                            ref_out.add((s[0], s[1]))
    if ref_out != got_out:
        out.append({"kind": "output-mismatch", "missing": sorted(map(list, ref_out - got_out)), "extra": sorted(map(list, got_out - ref_out))})
    if len(got_out_list) != len(got_out):
        out.append({"kind": "output-duplicates", "list": [str(p) for p in got_out_list]})
    ctx.counters["c18_open"] += len(u)
    ctx.counters["c18_shown"] += len(ref_out)
    return out


# ----------------------------------------------------------------------------------------
# C20 extension checker
# ----------------------------------------------------------------------------------------


def _sym_key(sym: clingo.Symbol) -> clingo.Symbol:
    return sym


def check_c20(ctx: Ctx) -> list[dict]:
    """extensions of domain/min/max/next predicates in the answer sets of the stage that emitted them"""
    rec = ctx.rec
    assert rec is not None
    out: list[dict] = []
    by_stage: dict = {}
    # predicates registered through add_domain_rule are pseudo predicates of minmax_chains that stand for the candidate
    # values of an aggregate; their name coincides with the result predicate, which also holds #inf/#sup
    pseudo = {tuple(e["pred"]) for e in rec.events if e["kind"] == "add_domain_rule"}
    for ev in rec.domain_map:
        if ev["kind"] == "dom" and tuple(ev["pred"]) in pseudo:
            continue
        if ev["kind"] in ("dom", "order"):
            by_stage.setdefault(ev["stage_idx"], []).append(ev)
    for stage_idx, evs in sorted(by_stage.items()):
        if stage_idx >= len(rec.stages):
            continue
        stage = rec.stages[stage_idx]
        stage_voc = refast.vocabulary(rec.stage_asts[stage_idx])
        evs = [e for e in evs if tuple(e["dom"]) in stage_voc or e["kind"] == "dom" and tuple(e["dom"]) in stage_voc]
        if not evs:
            continue
        text = "\n".join(stage["stmts"])
        for idx, inst in enumerate(ctx.instances()):
            if ctx.usable(idx):
                continue
            res = solve_symbols(text, inst, ctx.consts)
            if res is None:
                ctx.counters["discard:c20-stage-unsolvable"] += 1
                continue
            ctx.counters["c20_instances"] += 1
            models = res
            ctx.counters["c20_models"] += len(models)
            for ev in evs:
                out.extend(_check_domain_event(ctx, ev, models, inst, stage))
    return out


def solve_symbols(text: str, inst: list, consts: dict) -> Optional[list]:
    """list of models as dict (name, arity) -> set of argument tuples (clingo Symbols)"""
    args = ["0", "--opt-mode=enum"]
    for k, v in sorted(consts.items()):
        args += ["-c", f"{k}={v}"]
    try:
        ctl = clingo.Control(args, logger=lambda c, m: None)
        ctl.add("base", [], text)
        if inst:
            ctl.add("base", [], " ".join(f + "." for f in inst))
        ctl.ground([("base", [])])
    except RuntimeError:
        return None
    models: list = []
    import time

    deadline = time.time() + 20
    with ctl.solve(yield_=True, async_=True) as h:
        while True:
            h.resume()
            if not h.wait(max(0.0, deadline - time.time())):
                h.cancel()
                return None
            m = h.model()
            if m is None:
                break
            ext: dict = {}
            for s in m.symbols(atoms=True):
                if s.type == clingo.SymbolType.Function:
                    ext.setdefault((s.name, len(s.arguments)), set()).add(tuple(s.arguments))
            models.append(ext)
            if len(models) > 512:
                h.cancel()
                break
    return models


def _check_domain_event(ctx: Ctx, ev: dict, models: list, inst: list, stage: dict) -> list[dict]:
    out: list[dict] = []
    dom = tuple(ev["dom"])
    rules = [t for t in stage["stmts"] if t.startswith("__dom_")]  # all domain rules: a domain is built from other domains
    base = {"event": ev, "instance": inst, "stage": [stage["name"], stage["iter"]], "step": stage["name"], "domain_rules": rules[:12]}
    exts = [frozenset(m.get(dom, set())) for m in models]
    ctx.counters["c20_checks"] += 1
    if len(set(exts)) > 1:
        out.append({"kind": "domain-depends-on-choices", **base, "sizes": sorted(len(e) for e in set(exts))[:4]})
    if ev["kind"] == "dom":
        pred = tuple(ev["pred"])
        for m in models:
            missing = m.get(pred, set()) - m.get(dom, set())
            if missing:
                out.append({"kind": "domain-misses-tuple", **base, "missing": [str(t) for t in sorted(missing)][:3]})
                break
        if any(m.get(pred) for m in models):
            ctx.counters["c20_nonempty_dom"] += 1
        return out
    # chain atoms lie inside the domain: every chain predicate over this domain (named __chain_..__{min|max}_<dom>)
    # only carries values of the domain at its last position
    all_preds = set().union(*(m.keys() for m in models[:64])) if models else set()
    stem = "__chain_" + "_".join(str(i) for i in ev["annotated"]) + f"_{ev['position']}"  # the chain of this value position
    chain_preds = sorted(p for p in all_preds if p[0] in (stem + "__max_" + dom[0], stem + "__min_" + dom[0]))
    for m in models[:64]:
        for cp in chain_preds:
            dom_vals = {t[ev["position"]] for t in m.get(dom, set())}
            stray = sorted({t[-1] for t in m.get(cp, set())} - dom_vals)
            ctx.counters["c20_chain_checks"] += 1
            if stray:
                out.append({"kind": "chain-value-outside-domain", **base, "which": cp[0], "extra": [str(x) for x in stray][:3]})
                return out
    # order event: min / max / next over dom per group
    pos = ev["position"]
    annotated = ev["annotated"]
    arity = dom[1]
    group_pos = [i for i in range(arity) if i not in annotated]
    mn, mx, nx_ = tuple(ev["min"]), tuple(ev["max"]), tuple(ev["next"])
    for m in models[:64]:
        groups: dict = {}
        for t in m.get(dom, set()):
            groups.setdefault(tuple(t[i] for i in group_pos), set()).add(t[pos])
        want_min = {g + (min(v),) for g, v in groups.items()}
        want_max = {g + (max(v),) for g, v in groups.items()}
        want_next = set()
        for g, v in groups.items():
            sv = sorted(v)
            for a, b in zip(sv, sv[1:]):
                want_next.add(g + (a, b))
        if groups:
            ctx.counters["c20_groups"] += len(groups)
            if any(len(v) > 1 for v in groups.values()):
                ctx.counters["c20_multi_value_groups"] += 1
        stage_voc = None
        for name, want in ((mn, want_min), (mx, want_max), (nx_, want_next)):
            got = m.get(name, set())
            if stage_voc is None:
                stage_voc = set(refast.vocabulary(ctx.rec.stage_asts[ev["stage_idx"]]))  # type: ignore[union-attr]
            if name not in stage_voc:
                continue  # predicate was not emitted (e.g. max not needed)
            if got != want:
                out.append(
                    {
                        "kind": "order-predicate-wrong",
                        **base,
                        "which": name[0],
                        "missing": [str(t) for t in sorted(want - got)][:3],
                        "extra": [str(t) for t in sorted(got - want)][:3],
                    }
                )
                return out
    return out


# ----------------------------------------------------------------------------------------
# helpers
# ----------------------------------------------------------------------------------------


def digest(text: str) -> str:
    return hashlib.sha1(text.encode()).hexdigest()[:16]


# ----------------------------------------------------------------------------------------
# scope preservation of copied conditional literals / aggregates (C07 capture, C16/C10 global -> local)
# ----------------------------------------------------------------------------------------


def _scoped_parts(stm: AST) -> list[tuple[str, set, set]]:
    """(text, variables inside, variables that are global in the statement) for every conditional literal and body
    aggregate of a rule / objective body.  A variable is global if it occurs in an unscoped position: a plain body
    literal, a comparison, an aggregate guard, a plain head literal, the weight/priority/terms of an objective.
    Occurrences inside other conditional literals, aggregate elements or head elements do not make it global."""
    out = []
    if stm.ast_type not in (ASTType.Rule, ASTType.Minimize):
        return out
    body = list(stm.body)
    glob: set = set()
    if stm.ast_type == ASTType.Rule:
        head = stm.head
        if head.ast_type == ASTType.Literal:
            glob.update(refast.variables(head))
        else:
            for g in (getattr(head, "left_guard", None), getattr(head, "right_guard", None)):
                if g is not None:
                    glob.update(refast.variables(g))
    else:
        for node in [stm.weight, stm.priority, *stm.terms]:
            glob.update(refast.variables(node))
    scoped = []
    for blit in body:
        if blit.ast_type == ASTType.ConditionalLiteral:
            scoped.append(blit)
        elif blit.ast_type == ASTType.Literal and blit.atom.ast_type in (ASTType.BodyAggregate, ASTType.Aggregate):
            scoped.append(blit)
            for g in (blit.atom.left_guard, blit.atom.right_guard):
                if g is not None:
                    glob.update(refast.variables(g))
        else:
            glob.update(refast.variables(blit))
    glob.discard("_")
    for blit in scoped:
        if blit.ast_type == ASTType.ConditionalLiteral:
            inside = set(refast.variables(blit))
        else:
            inside = set()
            for el in blit.atom.elements:
                inside.update(refast.variables(el))
        inside.discard("_")
        out.append((str(blit), inside, set(glob)))
    return out


def check_scope_preservation(ctx: Ctx) -> list[dict]:
    """a conditional literal or aggregate that a step copies verbatim into a new statement must keep the scope of its
    variables: a variable that was local to it may not meet an equally named variable outside (capture by an invented
    name), and a variable that was shared with the rest of the statement may not become local"""
    rec = ctx.rec
    assert rec is not None
    out: list[dict] = []
    prev_asts = rec.stage_asts[0]
    prev = rec.stages[0]
    for stage, asts in zip(rec.stages[1:], rec.stage_asts[1:]):
        if stage["stmts"] != prev["stmts"]:
            before = Counter(prev["stmts"])
            after = Counter(stage["stmts"])
            removed = [s for s in prev_asts if (before - after)[str(s)] > 0]
            added = [s for s in asts if (after - before)[str(s)] > 0]
            src_parts: dict = {}
            for s in removed:
                for text, inside, outside in _scoped_parts(s):
                    src_parts.setdefault(text, []).append((inside, outside, str(s)))
            for s in added:
                for text, inside, outside in _scoped_parts(s):
                    cands = src_parts.get(text)
                    if not cands:
                        continue
                    ctx.counters["scope_parts_compared"] += 1
                    local_new = inside - outside
                    ok = any((i - o) == local_new for i, o, _ in cands)
                    if ok:
                        continue
                    i0, o0, stext = cands[0]
                    captured = sorted((i0 - o0) - local_new)
                    localised = sorted(local_new - (i0 - o0))
                    base = {"step": stage["name"], "iter": stage["iter"], "part": text, "from": stext, "to": str(s)}
                    if captured:
                        out.append({"kind": "local-variable-captured", "variables": captured, **base})
                    if localised:
                        out.append({"kind": "global-variable-became-local", "variables": localised, **base})
        prev, prev_asts = stage, asts
    return out
