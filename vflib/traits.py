"""the nine traits of ngo.optimize, by keyword name (my reading of the documentation)"""
TRAITS = [
    "cleanup",
    "unused",
    "duplication",
    "symmetry",
    "minmax_chains",
    "sum_chains",
    "math",
    "inline",
    "projection",
]
DEFAULT_TRAITS = [t for t in TRAITS if t != "duplication"]
