"""Known findings: classification by mechanism (DESIGN section 7)."""
from __future__ import annotations

from typing import Any, Optional


def classify(ctx: Any, case: dict, violation: dict) -> Optional[str]:
    return None
