"""Known findings: classification by mechanism (DESIGN section 7).

known_findings.json is committed and never written at run time.  An *open* finding carries a matcher: a conjunction of
observational conditions over the violation record (blamed step, kind, removed/added statements of the blamed rewrite,
exception site, source/result text) and optionally the name of a counterfactual repair (vflib/repairs.py): the violation
is then accepted as that finding only if it disappears when the case is re-run with the narrow repair active.
A *fixed* finding suppresses nothing.
"""
from __future__ import annotations

import json
import os
import re
from typing import Any, Optional

HERE = os.path.dirname(os.path.dirname(os.path.abspath(__file__)))
_FINDINGS: Optional[list] = None
_REPAIR_CACHE: dict = {}


def findings() -> list:
    global _FINDINGS
    if _FINDINGS is None:
        path = os.path.join(HERE, "known_findings.json")
        _FINDINGS = json.load(open(path))["findings"] if os.path.exists(path) else []
    return _FINDINGS


def _any(rx: str, texts: list) -> bool:
    pat = re.compile(rx, re.S)
    return any(pat.search(t or "") for t in texts)


def _matches(m: dict, ctx: Any, case: dict, v: dict) -> bool:
    blame = v.get("blame") or {}
    step = blame.get("step") or v.get("step")
    exc = v.get("exception") or {}
    site = exc.get("site") or {}
    removed = list(blame.get("removed") or v.get("removed") or [])
    added = list(blame.get("added") or v.get("added") or [])
    if "kinds" in m and v.get("kind") not in m["kinds"]:
        return False
    if "step" in m and step not in (m["step"] if isinstance(m["step"], list) else [m["step"]]):
        return False
    if "exception" in m:
        e = m["exception"]
        if e.get("type") and exc.get("type") != e["type"]:
            return False
        if e.get("function") and site.get("function") != e["function"]:
            return False
        if e.get("text") and e["text"] not in (site.get("text") or ""):
            return False
    if "removed" in m and not _any(m["removed"], removed):
        return False
    if "added" in m and not _any(m["added"], added):
        return False
    if "not_added" in m and _any(m["not_added"], added):
        return False
    if "source" in m and not _any(m["source"], [ctx.source_text]):
        return False
    if "not_source" in m and _any(m["not_source"], [ctx.source_text]):
        return False
    if "result" in m:
        res = "\n".join(str(s) for s in (ctx.rec.result or [])) if ctx.rec is not None else ""
        if not _any(m["result"], [res]):
            return False
    if "viol" in m and not _any(m["viol"], [json.dumps(v, default=str)]):
        return False
    if "traits_any" in m and not set(m["traits_any"]) & set(case.get("traits") or []):
        return False
    if "traits_all" in m and not set(m["traits_all"]) <= set(case.get("traits") or []):
        return False
    if "result_undefined" in m and bool(v.get("result_undefined")) != bool(m["result_undefined"]):
        return False
    if m.get("classical_negation"):
        from . import refast

        if not refast.has_classical_negation(ctx.source):
            return False
    if "layout" in m and case.get("layout", "normal") not in m["layout"]:
        return False
    if "empty_domain" in m and not _has_empty_domain(m["empty_domain"], ctx, v, step, blame.get("iter", v.get("iter")), added):
        return False
    return True


def _has_empty_domain(rx: str, ctx: Any, v: dict, step: Any, it: Any, added: list) -> bool:
    """observational part of a finding about an empty candidate domain: one of the predicates that the blamed step
    introduced and whose name matches rx has no atom in the answer sets of the blamed stage with the failing instance"""
    from . import oracle

    pat = re.compile(rx)
    rec = ctx.rec
    if rec is None or v.get("instance") is None:
        return False
    text = None
    names = set()
    for st in rec.stages:
        if st["name"] == step and st["iter"] == it:
            text = "\n".join(st["stmts"])
            for stm in st["stmts"]:  # the recorded 'added' list is truncated, the stage is not
                mm = re.match(r"([A-Za-z_][A-Za-z_0-9]*)\(", stm)
                if mm and pat.fullmatch(mm.group(1)) and (mm.group(1), ) not in names:
                    names.add(mm.group(1))
            break
    if text is None or not names:
        return False
    names -= {n for n, _a in ctx.voc_source}  # only predicates the optimisation introduced
    if not names:
        return False
    res = oracle.solve(text, v["instance"], ctx.consts, max_models=1)
    if not res.models:
        return False
    present = {a[0] for a in res.models[0][0]}
    return any(n not in present for n in names)


def _cured_by(repair: str, ctx: Any, case: dict, v: dict) -> bool:
    """re-run the case with the narrow repair active; cured iff no violation of the same property and kind remains on the
    same instance"""
    from . import evalcase, repairs

    key = (repair, json.dumps(case, sort_keys=True, default=str))
    if key not in _REPAIR_CACHE:
        c2 = dict(case)
        c2["_no_kf"] = True
        try:
            with repairs.active(repair):
                _REPAIR_CACHE[key] = evalcase.evaluate(c2)
        except Exception as exc:  # pylint: disable=broad-exception-caught
            # the repair does not fit this tree (renamed or missing function): nothing can be attributed to it
            _REPAIR_CACHE[key] = {"verdict": "inconclusive", "reason": f"repair-not-applicable: {type(exc).__name__}: {exc}"[:200]}
        if len(_REPAIR_CACHE) > 64:
            _REPAIR_CACHE.pop(next(iter(_REPAIR_CACHE)))
    res = _REPAIR_CACHE[key]
    if res.get("verdict") == "inconclusive":
        return False
    def where(x: dict) -> tuple:
        b = x.get("blame") or {}
        return (b.get("step") or x.get("step"), b.get("iter") if b else x.get("iter"))

    for w in res.get("violations") or []:
        if w.get("property") == v.get("property") and w.get("kind") == v.get("kind") and w.get("instance") == v.get("instance"):
            if where(w) == where(v):
                return False  # the same step still breaks it: not (only) this mechanism
    if res.get("n_violations", 0) > len(res.get("violations") or []):
        return False  # truncated list: cannot tell
    return True


def classify(ctx: Any, case: dict, v: dict) -> Optional[str]:
    if case.get("_no_kf"):
        return None
    for f in findings():
        if f.get("status") != "open":
            continue
        if v.get("property") not in f.get("properties", []):
            continue
        for m in f.get("match", []):
            try:
                if not _matches(m, ctx, case, v):
                    continue
                if m.get("repair") and not _cured_by(m["repair"], ctx, case, v):
                    continue
                return f["id"]
            except re.error:
                continue
    return None
