"""clingo as the executable reference semantics (DESIGN section 4).

solve() grounds a program (given as text or as a list of clingo ASTs) together with
instance facts and enumerates every answer set with its cost vector.  Everything that can
go wrong is returned as data; nothing here decides a property.
"""
from __future__ import annotations

from collections import Counter

import time
from dataclasses import dataclass, field
from typing import Iterable, Optional, Sequence

import clingo
from clingo.ast import AST, ProgramBuilder, parse_string

import re

_INT = re.compile(r"^-?\d+$")
MAX_MODELS = 4096
SOLVE_TIMEOUT = 20.0


@dataclass
class SolveResult:
    status: str  # ok | ground_error | capped | timeout | add_error
    models: list = field(default_factory=list)  # list of (frozenset[(name, arity, str)], cost tuple, frozenset[str] shown)
    messages: list = field(default_factory=list)  # (code name, text)
    error: str = ""
    undefined: bool = False  # OperationUndefined / tuple ignored (non-integer) seen
    sumplus_ignored: int = 0  # negative integer weights ignored by #sum+ (defined semantics)
    wall: float = 0.0

    @property
    def ok(self) -> bool:
        return self.status == "ok"


def _cost_key(model: clingo.Model) -> tuple:
    prios = list(getattr(model, "priority", []))
    cost = list(model.cost)
    if len(prios) != len(cost):  # older clingo: no priorities; fall back to positions
        prios = list(range(len(cost), 0, -1))
    return tuple(sorted((p, c) for p, c in zip(prios, cost) if c != 0))


def _atom(sym: clingo.Symbol) -> tuple:
    if sym.type == clingo.SymbolType.Function:
        return (("-" if sym.negative else "") + sym.name, len(sym.arguments), str(sym))
    return ("", 0, str(sym))


def solve(
    program: str | Sequence[AST],
    facts: Iterable[str] = (),
    consts: Optional[dict] = None,
    max_models: int = MAX_MODELS,
    timeout: float = SOLVE_TIMEOUT,
) -> SolveResult:
    """enumerate all answer sets of program + facts under --opt-mode=enum"""
    t0 = time.time()
    res = SolveResult("ok")

    def logger(code: clingo.MessageCode, msg: str) -> None:
        res.messages.append((code.name, msg))
        if "tuple ignored" in msg:
            # clingo reports a negative *integer* weight inside #sum+ with the same code and text as a non-integer
            # weight.  The former is defined semantics (the tuple does not count) and stays inside the quantifier
            # ("arithmetic is only applied to integers"); the latter discards the instance.
            lines = [ln.strip() for ln in msg.splitlines() if ln.strip()]
            first = lines[-1].split(",")[0].strip() if len(lines) > 1 else ""
            if _INT.match(first):
                res.sumplus_ignored += 1
            else:
                res.undefined = True
        elif code == clingo.MessageCode.OperationUndefined:
            res.undefined = True

    args = ["0", "--opt-mode=enum"]
    for k, v in sorted((consts or {}).items()):
        args += ["-c", f"{k}={v}"]
    try:
        ctl = clingo.Control(args, logger=logger, message_limit=200)
        if isinstance(program, str):
            ctl.add("base", [], program)
        else:
            with ProgramBuilder(ctl) as bld:
                for stm in program:
                    bld.add(stm)
        fact_text = " ".join(f if f.endswith(".") else f + "." for f in facts)
        if fact_text:
            ctl.add("base", [], fact_text)
    except (RuntimeError, TypeError, AttributeError, MemoryError) as exc:
        res.status = "add_error"
        res.error = f"{type(exc).__name__}: {exc}"
        res.wall = time.time() - t0
        return res
    try:
        ctl.ground([("base", [])])
    except (RuntimeError, MemoryError) as exc:
        res.status = "ground_error"
        res.error = f"{type(exc).__name__}: {exc}"
        res.wall = time.time() - t0
        return res
    deadline = time.time() + timeout
    try:
        with ctl.solve(yield_=True, async_=True) as handle:
            while True:
                handle.resume()
                left = deadline - time.time()
                if left <= 0 or not handle.wait(left):
                    handle.cancel()
                    res.status = "timeout"
                    break
                model = handle.model()
                if model is None:
                    break
                atoms = frozenset(_atom(s) for s in model.symbols(atoms=True))
                shown = frozenset(str(s) for s in model.symbols(terms=True))  # what '#show term : body.' displays
                res.models.append((atoms, _cost_key(model), shown))
                if len(res.models) > max_models:
                    handle.cancel()
                    res.status = "capped"
                    break
    except (RuntimeError, MemoryError) as exc:
        res.status = "ground_error"
        res.error = f"{type(exc).__name__}: {exc}"
    res.wall = time.time() - t0
    return res


def project(models: list, voc: Optional[set], with_cost: bool, shown: bool = False) -> list:
    """list (one entry per model, duplicates kept) of (frozenset[str], cost?)"""
    out = []
    for atoms, cost, shw in models:
        if shown:
            # declared display: shown terms plus the atoms of '#show p/n.' signatures (voc)
            key = shw | frozenset(a[2] for a in atoms if (a[0], a[1]) in (voc or ()))
        elif voc is None:
            key = frozenset(a[2] for a in atoms)
        else:
            key = frozenset(a[2] for a in atoms if (a[0], a[1]) in voc)
        out.append((key, cost) if with_cost else (key, ()))
    return out


def diff_models(src: list, res: list, bijection: bool) -> Optional[dict]:
    """compare two projected model lists; None if equal under the mode"""
    sset, rset = set(src), set(res)
    if sset != rset:
        lost = sorted(sset - rset, key=repr)[:3]
        gained = sorted(rset - sset, key=repr)[:3]
        return {
            "kind": "set",
            "n_src": len(sset),
            "n_res": len(rset),
            "only_source": [[sorted(m), list(c)] for m, c in lost],
            "only_result": [[sorted(m), list(c)] for m, c in gained],
        }
    # one-to-one: every projected answer set occurs equally often on both sides.  (Normally once; clingo itself
    # enumerates duplicates for a source like 'h(_,X) : d(X,D) ; g(A) :- ...' whose hidden projection atoms differ.)
    if bijection and Counter(src) != Counter(res):
        return {"kind": "count", "n_src": len(src), "n_res": len(res), "n_distinct": len(rset), "n_distinct_src": len(sset)}
    return None


def parse_program(text: str) -> list[AST]:
    out: list[AST] = []
    msgs: list = []
    parse_string(text, out.append, logger=lambda c, m: msgs.append((c.name, m)))
    return out
