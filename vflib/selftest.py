"""./vf selftest [ID..] : apply every kept property-breaking change (seeded/<id>/patch.diff) to a scratch copy of /repo,
run the quick check of the property it breaks with VERIF_REPO pointing there, and require exit 1 with a VIOLATION line.
Scratch copies live outside /repo and /verif and are removed right away; evidence of these runs goes to a scratch
directory as well (VF_OUT)."""
from __future__ import annotations

import json
import os
import shutil
import subprocess
import sys
import tempfile
import time

HERE = os.path.dirname(os.path.dirname(os.path.abspath(__file__)))


def run_one(sid: str, tier: str = "quick") -> dict:
    d = os.path.join(HERE, "seeded", sid)
    meta = json.load(open(os.path.join(d, "meta.json")))
    props = meta.get("detect_with") or [meta["property"]]
    scratch = tempfile.mkdtemp(prefix=f"vf_selftest_{sid}_")
    out = {"id": sid, "property": meta["property"], "results": {}}
    try:
        shutil.copytree("/repo/src", os.path.join(scratch, "src"))
        p = subprocess.run(["git", "apply", "--directory", scratch, "-p1", "--unsafe-paths", os.path.join(d, "patch.diff")], cwd=scratch, capture_output=True, text=True)
        if p.returncode != 0:
            p = subprocess.run(["patch", "-p1", "-d", scratch, "-i", os.path.join(d, "patch.diff")], capture_output=True, text=True)
        if p.returncode != 0:
            out["error"] = "patch does not apply: " + (p.stderr or p.stdout)[-300:]
            return out
        for prop in props:
            env = dict(os.environ, VERIF_REPO=scratch, VF_OUT=os.path.join(scratch, "out"))
            env.pop("VF_TRIAGE", None)
            t0 = time.time()
            r = subprocess.run([os.path.join(HERE, "vf"), tier, prop], capture_output=True, text=True, env=env, cwd=HERE)
            viol = [ln for ln in r.stdout.splitlines() if ln.startswith("VIOLATION")]
            out["results"][prop] = {"exit": r.returncode, "violations": len(viol), "first": (viol[:1] + [ln for ln in r.stdout.splitlines() if ln.startswith("  kind=")][:1]), "wall": round(time.time() - t0)}
    finally:
        shutil.rmtree(scratch, ignore_errors=True)
    out["caught"] = any(v["exit"] == 1 and v["violations"] > 0 for v in out["results"].values())
    return out


def main(argv: list[str]) -> int:
    tier = "quick"
    if argv and argv[0] in ("quick", "thorough"):
        tier, argv = argv[0], argv[1:]
    root = os.path.join(HERE, "seeded")
    ids = argv or sorted(x for x in os.listdir(root) if os.path.exists(os.path.join(root, x, "patch.diff")))
    missed = 0
    for sid in ids:
        res = run_one(sid, tier)
        ok = res.get("caught")
        missed += 0 if ok else 1
        print(("CAUGHT " if ok else "MISSED ") + sid, json.dumps(res.get("results") or res.get("error"))[:400], flush=True)
    print(f"selftest: {len(ids) - missed}/{len(ids)} changes caught")
    return 0 if missed == 0 else 1
