"""Worker-side: black-box runs of `python -m ngo` (C19, C03, C17) and history sequences (C17)."""
from __future__ import annotations

import gc
import os
import subprocess
import sys
from typing import Any, Optional

from . import checks, monitors
from .traits import TRAITS

PYTHON = sys.executable


def run_cli(args: list[str], text: str, hashseed: Optional[int] = None, timeout: float = 120.0) -> dict:
    env = dict(os.environ)
    repo = os.environ.get("VERIF_REPO", "/repo")
    env["PYTHONPATH"] = os.path.join(repo, "src")
    if hashseed is not None:
        env["PYTHONHASHSEED"] = str(hashseed)
    env.pop("NGO_VERIF", None)
    try:
        p = subprocess.run([PYTHON, "-m", "ngo", *args], input=text.encode(), stdout=subprocess.PIPE, stderr=subprocess.PIPE, env=env, timeout=timeout, cwd="/")
    except subprocess.TimeoutExpired:
        return {"timeout": True, "rc": None, "stdout": "", "stderr": ""}
    return {"timeout": False, "rc": p.returncode, "stdout": p.stdout.decode(errors="replace"), "stderr": p.stderr.decode(errors="replace")}


def reference(text: str, expect: dict) -> dict:
    """in-process optimize for the documented expansion of the options (computed by the case generator, not by ngo's parser)"""
    from ngo.utils.globals import auto_detect_input, auto_detect_output

    prg = checks.oracle.parse_program(text)
    inp = auto_detect_input(prg) if expect["in"] == "auto" else checks.preds(expect["in"])
    out = auto_detect_output(prg) if expect["out"] == "auto" else checks.preds(expect["out"])
    rec = monitors.run_optimize(prg, inp, out, expect["traits"], set())
    if rec.result is None:
        return {"ok": False, "exception": rec.exception}
    return {"ok": True, "text": "".join(str(s) + "\n" for s in rec.result), "stdout_guard": rec.stdout, "changed": sorted(p for p, c in rec.pass_changed.items() if c)}


def eval_cli(case: dict) -> dict:
    res = _eval_cli(case)
    if res.get("violations"):
        from . import kf

        ctx = checks.Ctx({"program": case["program"]})
        for v in res["violations"]:
            v["kf"] = kf.classify(ctx, case, v)
    return res


def _eval_cli(case: dict) -> dict:
    prop = case["prop"]
    expect = case["expect"]
    if case.get("need_safe"):
        probe = checks.oracle.solve(case["program"], [], {}, max_models=1, timeout=10)
        if probe.status in ("ground_error", "add_error") or any(c == "RuntimeError" for c, _ in probe.messages):
            return {"verdict": "inconclusive", "reason": "source-unsafe"}
    got = run_cli(case["args"], case["program"], case.get("cli_hashseed"))
    viol: list[dict] = []
    counters = {"cli_invocations": 1}
    if got["timeout"]:
        return {"verdict": "inconclusive", "reason": "cli-timeout", "counters": counters}
    info: dict[str, Any] = {"args": case["args"], "rc": got["rc"], "stderr_tail": got["stderr"][-300:]}
    if not expect.get("valid", True):
        counters["cli_invalid_checked"] = 1
        if got["rc"] == 0:
            viol.append({"property": "C19", "kind": "invalid-options-accepted", "args": case["args"], "stdout": got["stdout"][:200]})
        elif got["stdout"]:
            viol.append({"property": "C19", "kind": "invalid-options-produce-output", "args": case["args"], "stdout": got["stdout"][:200]})
        return {"verdict": "violated" if viol else "held", "violations": viol, "counters": counters, "info": info, "nontrivial": True, "sig": checks.digest(" ".join(case["args"]))}
    ref = reference(case["program"], expect)
    if not ref["ok"]:
        # optimize itself raises on this input (C03's business); the CLI must then fail too
        if got["rc"] == 0:
            viol.append({"property": "C19", "kind": "cli-succeeds-where-api-raises", "args": case["args"]})
        if prop == "C03":
            viol.append({"property": "C03", "kind": "exception", "exception": ref["exception"], "via": "cli-reference"})
        return {"verdict": "violated" if viol else "inconclusive", "reason": "optimize-raised", "violations": viol, "counters": counters, "info": info}
    counters["cli_compared"] = 1
    if got["rc"] != 0:
        viol.append({"property": prop if prop in ("C03", "C19") else "C19", "kind": "cli-fails", "args": case["args"], "rc": got["rc"], "stderr": got["stderr"][-400:]})
    elif got["stdout"] != ref["text"]:
        import difflib

        diff = list(difflib.unified_diff(ref["text"].splitlines(), got["stdout"].splitlines(), "optimize()", "cli stdout", lineterm="", n=0))[:12]
        kind = "cli-output-differs"
        viol.append({"property": "C19" if prop != "C17" else "C17", "kind": kind, "args": case["args"], "diff": diff})
    if ref.get("stdout_guard"):
        viol.append({"property": "C19", "kind": "optimize-writes-stdout", "text": ref["stdout_guard"][:200]})
    res = {
        "verdict": "violated" if viol else "held",
        "violations": viol,
        "counters": counters,
        "info": info,
        "changed": ref.get("changed"),
        "nontrivial": True,
        "sig": checks.digest(" ".join(case["args"]) + "|" + case["program"]),
        "out_digest": checks.digest(got["stdout"]),
    }
    if case.get("want_output"):
        res["output"] = got["stdout"]
    return res


def eval_history(case: dict) -> dict:
    """C17: one process optimises a list of programs in several orders; every output of a program must be identical,
    and equal to the output of a fresh process (the CLI) for the sampled ones"""
    programs = case["programs"]  # list of {program, in, out, traits}
    viol: list[dict] = []
    outputs: dict[int, set] = {i: set() for i in range(len(programs))}
    first: dict[int, str] = {}
    counters = {"history_optimize_calls": 0, "history_orders": len(case["orders"]), "history_cli_fresh": 0}
    from ngo.utils.globals import auto_detect_input, auto_detect_output

    def run(i: int) -> Optional[str]:
        p = programs[i]
        prg = checks.oracle.parse_program(p["program"])
        inp = auto_detect_input(prg) if p["in"] == "auto" else checks.preds(p["in"])
        out = auto_detect_output(prg) if p["out"] == "auto" else checks.preds(p["out"])
        rec = monitors.run_optimize(prg, inp, out, p["traits"], set())
        counters["history_optimize_calls"] += 1
        for v in rec.contract_violations:
            if v["contract"] == "argument_untouched":
                viol.append({"property": "C17", "kind": "argument-mutated", "program": p["program"][:300], **{k: v[k] for k in v if k != "contract"}})
        if rec.result is None:
            return None
        return "".join(str(s) + "\n" for s in rec.result)

    invented = 0
    for oi, order in enumerate(case["orders"]):
        for pos, i in enumerate(order):
            text = run(i)
            if text is None:
                continue
            if i not in first:
                first[i] = text
            elif text != first[i]:
                import difflib

                diff = list(difflib.unified_diff(first[i].splitlines(), text.splitlines(), "first run", f"order {oi} position {pos}", lineterm="", n=0))[:10]
                viol.append({"property": "C17", "kind": "history-dependent-output", "program": programs[i]["program"][:400], "order": order[: pos + 1], "diff": diff})
            outputs[i].add(text)
            if case.get("gc"):
                gc.collect()
    for i in case.get("fresh", []):
        if i not in first:
            continue
        p = programs[i]
        args = ["--enable"] + (p["traits"] or ["none"])
        args += ["--input-predicates", "auto" if p["in"] == "auto" else ",".join(f"{n}/{a}" for n, a in p["in"])]
        args += ["--output-predicates", "auto" if p["out"] == "auto" else ",".join(f"{n}/{a}" for n, a in p["out"])]
        got = run_cli(args, p["program"], case.get("cli_hashseed"))
        counters["history_cli_fresh"] += 1
        if got["timeout"] or got["rc"] != 0:
            continue
        if got["stdout"] != first[i]:
            import difflib

            diff = list(difflib.unified_diff(got["stdout"].splitlines(), first[i].splitlines(), "fresh process", "in-process after history", lineterm="", n=0))[:10]
            viol.append({"property": "C17", "kind": "differs-from-fresh-process", "program": p["program"][:400], "diff": diff})
    distinct = sum(1 for i in first)
    return {
        "verdict": "violated" if viol else "held",
        "violations": viol[:6],
        "counters": counters,
        "nontrivial": distinct >= 2,
        "sig": checks.digest(str(case["orders"]) + str([p["program"] for p in programs])),
        "info": {"programs": len(programs), "distinct_outputs": distinct},
    }
