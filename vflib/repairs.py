"""Narrow reference repairs used only as counterfactual classifiers for known findings (DESIGN section 7, layer B).

A repair replaces exactly the faulty step of one function of the imported ngo code while it is active; "disable the pass"
is not an admissible repair.  Repairs are never active during a deciding run.
"""
from __future__ import annotations

import contextlib
from typing import Callable, Iterator

REPAIRS: dict[str, Callable[[], Callable[[], None]]] = {}


def repair(name: str) -> Callable:
    def deco(fn: Callable[[], Callable[[], None]]) -> Callable:
        REPAIRS[name] = fn
        return fn

    return deco


@contextlib.contextmanager
def active(name: str) -> Iterator[None]:
    undo = REPAIRS[name]()
    try:
        yield
    finally:
        undo()


# ----------------------------------------------------------------------------------------------------------------
# KF-inline-occurs: normalize._inlinable lacks an occurs check (X = X+1 is a test, not an assignment).
# The corrected predicate cannot be committed: tests/test_math_simplification.py pins 'a :- b(X), X=X*3.' -> 'a :- b((X*3)).'
# ----------------------------------------------------------------------------------------------------------------
@repair("inline-occurs")
def _inline_occurs() -> Callable[[], None]:
    import ngo.normalize as nz
    from ngo.utils.ast import collect_ast

    orig = nz._inlinable

    def _inlinable(var, rest):  # type: ignore[no-untyped-def]
        return orig(var, rest) and var not in collect_ast(rest, "Variable")

    nz._inlinable = _inlinable

    def undo() -> None:
        nz._inlinable = orig

    return undo


# ----------------------------------------------------------------------------------------------------------------
# KF-dup-scope: duplication factors out a literal set containing a conditional literal / body aggregate whose inner
# variable is global in the statement but not bound by the rest of the set; in the auxiliary rule it becomes local.
# The wrong text is pinned by tests/test_literal_duplication.py (bar(N,T): cond(E,N,T) -> cond(__AUX_3,..)).
# ----------------------------------------------------------------------------------------------------------------
@repair("dup-scope")
def _dup_scope() -> Callable[[], None]:
    from itertools import combinations

    import ngo.literal_duplication as ld
    from clingo.ast import ASTType
    from ngo.utils.ast import collect_ast, collect_binding_information_body, global_vars_inside_body

    orig = ld.LiteralCollector._add_occurences_from_body

    def scoped(member):  # type: ignore[no-untyped-def]
        return member.ast_type == ASTType.ConditionalLiteral or (
            member.ast_type == ASTType.Literal and member.atom.ast_type in (ASTType.BodyAggregate, ASTType.Aggregate)
        )

    def patched(self, body, index):  # type: ignore[no-untyped-def]
        body = list(body)
        stm = self.prg[index]
        outside = []
        if stm.ast_type == ASTType.Rule:
            outside.append(stm.head)
        else:
            outside.extend([stm.weight, stm.priority, *stm.terms])
        for original_subset in combinations(body, self.size):
            ok = True
            for member in original_subset:
                if not scoped(member):
                    continue
                inner = set(collect_ast(member, "Variable")) - global_vars_inside_body([member])
                others = set()
                for o in outside + [b for b in body if b is not member and b != member]:
                    others.update(collect_ast(o, "Variable"))
                rest_bound = collect_binding_information_body([m for m in original_subset if m != member])[0]
                if (inner & others) - rest_bound:
                    ok = False
            if not ok:
                continue
            _, unbound = collect_binding_information_body(original_subset)
            if not unbound:
                new_subset, oldvars2newvars = ld.anonymize_variables(original_subset)
                newvars2oldvars = {v: k for k, v in oldvars2newvars.items()}
                self.occurences[tuple(new_subset)].append(
                    ld.RuleRebuilder(index, None, None, original_subset, tuple(new_subset), oldvars2newvars, newvars2oldvars)
                )

    ld.LiteralCollector._add_occurences_from_body = patched

    def undo() -> None:
        ld.LiteralCollector._add_occurences_from_body = orig

    return undo


# ----------------------------------------------------------------------------------------------------------------
# KF-dup-rec-cond: duplication factors the condition of a conditional literal although the condition is positively
# recursive with the head of the rule: 'aux <- F' is only one half of a definition, with aux in the antecedent of the
# nested implication the reduct gets a smaller model and answer sets are lost.
# ----------------------------------------------------------------------------------------------------------------
@repair("dup-rec-cond")
def _dup_rec_cond() -> Callable[[], None]:
    import networkx as nx

    import ngo.literal_duplication as ld
    from clingo.ast import ASTType, Sign
    from ngo.utils.ast import SIGNS, body_predicates, headderivable_predicates, literal_predicate

    orig = ld.LiteralCollector._add_occurences_from_conditionals

    def patched(self, body, index):  # type: ignore[no-untyped-def]
        graph = nx.DiGraph()
        for stm in self.prg:
            if stm.ast_type == ASTType.Rule:
                heads = [h.pred for h in headderivable_predicates(stm)]
                for b in body_predicates(stm, {Sign.NoSign, Sign.DoubleNegation}):
                    for h in heads:
                        graph.add_edge(b.pred, h)
        stm = self.prg[index]
        heads = {h.pred for h in headderivable_predicates(stm)} if stm.ast_type == ASTType.Rule else set()
        recursive = set()
        for h in heads:
            if h in graph:
                recursive |= nx.ancestors(graph, h) & (nx.descendants(graph, h) | {h})
                if graph.has_edge(h, h):
                    recursive.add(h)
        new_body = []
        for lit in body:
            if lit.ast_type == ASTType.ConditionalLiteral:
                preds = {p.pred for c in lit.condition for p in literal_predicate(c, SIGNS)}
                if preds & recursive:
                    continue
            new_body.append(lit)
        return orig(self, new_body, index)

    ld.LiteralCollector._add_occurences_from_conditionals = patched

    def undo() -> None:
        ld.LiteralCollector._add_occurences_from_conditionals = orig

    return undo


# ----------------------------------------------------------------------------------------------------------------
# KF-minmax-empty-domain: the '#inf/#sup' result rule '__max(G,#inf) :- __min_dom(X); not __chain(G,X); lits.' needs the
# domain's extreme element to exist; with an empty candidate domain the result atom is not derived at all.
# The rule text is pinned by dozens of stored expectations in tests/test_minmax_aggregates.py.
# ----------------------------------------------------------------------------------------------------------------
@repair("minmax-empty-domain")
def _minmax_empty_domain() -> Callable[[], None]:
    import ngo.minmax_aggregates as mm
    from clingo.ast import ConditionalLiteral
    from ngo.utils.ast import LOC

    orig = mm.MinMaxAggregator._create_aggregate_replacement

    def patched(self, agg, elem, rest_vars, new_predicate, lits_with_vars):  # type: ignore[no-untyped-def]
        ret = orig(self, agg, elem, rest_vars, new_predicate, lits_with_vars)
        last = ret[-1]
        body = list(last.body)
        extreme, notchain = body[0], body[1]
        ret[-1] = last.update(body=[ConditionalLiteral(LOC, notchain, [extreme])] + body[2:])
        return ret

    mm.MinMaxAggregator._create_aggregate_replacement = patched

    def undo() -> None:
        mm.MinMaxAggregator._create_aggregate_replacement = orig

    return undo


# ----------------------------------------------------------------------------------------------------------------
# KF-domain-under-negation: DomainPredicates.add_domain_rules replaces every atom of a defining body by its domain
# predicate, also under 'not' and inside the condition of a conditional literal, where a larger set makes the body
# *harder* to satisfy: '__dom_p(V) :- d(V); not __dom_q(V).' under-approximates p.  Pinned by tests/test_dependency.py
# and tests/test_symmetry.py.  The repair drops such literals from the domain rule (a sound over-approximation).
# ----------------------------------------------------------------------------------------------------------------
@repair("domain-under-negation")
def _domain_under_negation() -> Callable[[], None]:
    import ngo.dependency as dep
    from clingo.ast import ASTType, Sign
    from ngo.utils.ast import Predicate, collect_ast

    orig = dep.DomainPredicates.add_domain_rules

    def patched(self, domain_rules):  # type: ignore[no-untyped-def]
        def dynamic(node) -> bool:  # type: ignore[no-untyped-def]
            for atom in collect_ast(node, "SymbolicAtom"):
                if atom.symbol.ast_type == ASTType.Function and not self.is_static(
                    Predicate(atom.symbol.name, len(atom.symbol.arguments))
                ):
                    return True
            return False

        new = {}
        for pred, rules in domain_rules.items():
            new_rules = []
            for head, condition in rules:
                kept = []
                for cond in condition:
                    if cond.ast_type == ASTType.Literal and cond.sign == Sign.Negation and dynamic(cond):
                        continue
                    if cond.ast_type == ASTType.ConditionalLiteral and any(dynamic(c) for c in cond.condition):
                        continue
                    kept.append(cond)
                new_rules.append((head, kept))
            new[pred] = new_rules
        return orig(self, new)

    dep.DomainPredicates.add_domain_rules = patched

    def undo() -> None:
        dep.DomainPredicates.add_domain_rules = orig

    return undo


# ----------------------------------------------------------------------------------------------------------------
# KF-sumchains-anon-group: an anonymous group argument ('#sum { L : shift(_,L) }', ':~ shift(_,L). [L@0]') merges the
# chains of all groups under the constant 'none'.  The generated text is pinned by tests/test_sum_aggregates.py.
# ----------------------------------------------------------------------------------------------------------------
@repair("sumchains-anon-group")
def _sumchains_anon_group() -> Callable[[], None]:
    import ngo.sum_aggregates as sa
    from clingo.ast import ASTType

    orig = sa.SumAggregator._group_is_visible

    def patched(trigger, terms, outer_vars):  # type: ignore[no-untyped-def]
        trigger_lit, _, anon = trigger
        for index, arg in enumerate(trigger_lit.atom.symbol.arguments):
            if index not in anon.annotated_positions and arg.ast_type == ASTType.Variable and arg.name == "_":
                return False
        return orig(trigger, terms, outer_vars)

    sa.SumAggregator._group_is_visible = staticmethod(patched)

    def undo() -> None:
        sa.SumAggregator._group_is_visible = staticmethod(orig)

    return undo


# ----------------------------------------------------------------------------------------------------------------
# KF-sumchains-head-tuple: a head '#sum { 1 : shift(D,L) : len(L) } <= 1' is taken as 'at most one shift atom per D'
# although the tuple '1' does not contain L: all atoms share one tuple, the bound does not limit them.
# Pinned by tests/test_sum_aggregates.py::test_sum_aggregates_bound_detection.
# ----------------------------------------------------------------------------------------------------------------
@repair("sumchains-head-tuple")
def _sumchains_head_tuple() -> Callable[[], None]:
    import ngo.sum_aggregates as sa
    from clingo.ast import ASTType
    from ngo.utils.ast import collect_ast, collect_binding_information_body

    orig = sa.SumAggregator._calc_at_most_on_rule

    def patched(self, rule):  # type: ignore[no-untyped-def]
        head = rule.head
        if head.ast_type == ASTType.HeadAggregate:
            global_vars = collect_binding_information_body(rule.body)[0]
            for elem in head.elements:
                lit = elem.condition.literal
                local = set(collect_ast(lit, "Variable")) - set(global_vars)
                tuple_vars = set()
                for t in elem.terms:
                    tuple_vars.update(collect_ast(t, "Variable"))
                if {v for v in local if v.name != "_"} - tuple_vars:
                    return ([], [])
        return orig(self, rule)

    sa.SumAggregator._calc_at_most_on_rule = patched

    def undo() -> None:
        sa.SumAggregator._calc_at_most_on_rule = orig

    return undo
