"""Narrow reference repairs used only as counterfactual classifiers for known findings (DESIGN section 7, layer B).

A repair replaces exactly the faulty step of one function of the imported ngo code while it is active; "disable the pass"
is not an admissible repair.  Repairs are never active during a deciding run.
"""
from __future__ import annotations

import contextlib
from typing import Callable, Iterator

REPAIRS: dict[str, Callable[[], Callable[[], None]]] = {}


def repair(name: str) -> Callable:
    def deco(fn: Callable[[], Callable[[], None]]) -> Callable:
        REPAIRS[name] = fn
        return fn

    return deco


@contextlib.contextmanager
def active(name: str) -> Iterator[None]:
    undo = REPAIRS[name]()
    try:
        yield
    finally:
        undo()
