"""Narrow reference repairs used only as counterfactual classifiers for known findings (DESIGN section 7, layer B).

A repair replaces exactly the faulty step of one function of the imported ngo code while it is active; "disable the pass"
is not an admissible repair.  Repairs are never active during a deciding run.
"""
from __future__ import annotations

import contextlib
from typing import Callable, Iterator

REPAIRS: dict[str, Callable[[], Callable[[], None]]] = {}


def repair(name: str) -> Callable:
    def deco(fn: Callable[[], Callable[[], None]]) -> Callable:
        REPAIRS[name] = fn
        return fn

    return deco


@contextlib.contextmanager
def active(name: str) -> Iterator[None]:
    undo = REPAIRS[name]()
    try:
        yield
    finally:
        undo()


# ----------------------------------------------------------------------------------------------------------------
# KF-inline-occurs: normalize._inlinable lacks an occurs check (X = X+1 is a test, not an assignment).
# The corrected predicate cannot be committed: tests/test_math_simplification.py pins 'a :- b(X), X=X*3.' -> 'a :- b((X*3)).'
# ----------------------------------------------------------------------------------------------------------------
@repair("inline-occurs")
def _inline_occurs() -> Callable[[], None]:
    import ngo.normalize as nz
    from ngo.utils.ast import collect_ast

    orig = nz._inlinable

    def _inlinable(var, rest):  # type: ignore[no-untyped-def]
        return orig(var, rest) and var not in collect_ast(rest, "Variable")

    nz._inlinable = _inlinable

    def undo() -> None:
        nz._inlinable = orig

    return undo


# ----------------------------------------------------------------------------------------------------------------
# KF-dup-scope: duplication factors out a literal set containing a conditional literal / body aggregate whose inner
# variable is global in the statement but not bound by the rest of the set; in the auxiliary rule it becomes local.
# The wrong text is pinned by tests/test_literal_duplication.py (bar(N,T): cond(E,N,T) -> cond(__AUX_3,..)).
# ----------------------------------------------------------------------------------------------------------------
@repair("dup-scope")
def _dup_scope() -> Callable[[], None]:
    from itertools import combinations

    import ngo.literal_duplication as ld
    from clingo.ast import ASTType
    from ngo.utils.ast import collect_ast, collect_binding_information_body, global_vars_inside_body

    orig = ld.LiteralCollector._add_occurences_from_body

    def scoped(member):  # type: ignore[no-untyped-def]
        return member.ast_type == ASTType.ConditionalLiteral or (
            member.ast_type == ASTType.Literal and member.atom.ast_type in (ASTType.BodyAggregate, ASTType.Aggregate)
        )

    def patched(self, body, index):  # type: ignore[no-untyped-def]
        body = list(body)
        stm = self.prg[index]
        outside = []
        if stm.ast_type == ASTType.Rule:
            outside.append(stm.head)
        else:
            outside.extend([stm.weight, stm.priority, *stm.terms])
        for original_subset in combinations(body, self.size):
            ok = True
            for member in original_subset:
                if not scoped(member):
                    continue
                inner = set(collect_ast(member, "Variable")) - global_vars_inside_body([member])
                others = set()
                for o in outside + [b for b in body if b is not member and b != member]:
                    others.update(collect_ast(o, "Variable"))
                rest_bound = collect_binding_information_body([m for m in original_subset if m != member])[0]
                if (inner & others) - rest_bound:
                    ok = False
            if not ok:
                continue
            _, unbound = collect_binding_information_body(original_subset)
            if not unbound:
                new_subset, oldvars2newvars = ld.anonymize_variables(original_subset)
                newvars2oldvars = {v: k for k, v in oldvars2newvars.items()}
                self.occurences[tuple(new_subset)].append(
                    ld.RuleRebuilder(index, None, None, original_subset, tuple(new_subset), oldvars2newvars, newvars2oldvars)
                )

    ld.LiteralCollector._add_occurences_from_body = patched

    def undo() -> None:
        ld.LiteralCollector._add_occurences_from_body = orig

    return undo


# ----------------------------------------------------------------------------------------------------------------
# KF-dup-rec-cond: duplication factors the condition of a conditional literal although the condition is positively
# recursive with the head of the rule: 'aux <- F' is only one half of a definition, with aux in the antecedent of the
# nested implication the reduct gets a smaller model and answer sets are lost.
# ----------------------------------------------------------------------------------------------------------------
@repair("dup-rec-cond")
def _dup_rec_cond() -> Callable[[], None]:
    import networkx as nx

    import ngo.literal_duplication as ld
    from clingo.ast import ASTType, Sign
    from ngo.utils.ast import SIGNS, body_predicates, headderivable_predicates, literal_predicate

    orig = ld.LiteralCollector._add_occurences_from_conditionals

    def patched(self, body, index):  # type: ignore[no-untyped-def]
        graph = nx.DiGraph()
        for stm in self.prg:
            if stm.ast_type == ASTType.Rule:
                heads = [h.pred for h in headderivable_predicates(stm)]
                for b in body_predicates(stm, {Sign.NoSign, Sign.DoubleNegation}):
                    for h in heads:
                        graph.add_edge(b.pred, h)
        stm = self.prg[index]
        heads = {h.pred for h in headderivable_predicates(stm)} if stm.ast_type == ASTType.Rule else set()
        recursive = set()
        for h in heads:
            if h in graph:
                recursive |= nx.ancestors(graph, h) & (nx.descendants(graph, h) | {h})
                if graph.has_edge(h, h):
                    recursive.add(h)
        new_body = []
        for lit in body:
            if lit.ast_type == ASTType.ConditionalLiteral:
                preds = {p.pred for c in lit.condition for p in literal_predicate(c, SIGNS)}
                if preds & recursive:
                    continue
            new_body.append(lit)
        return orig(self, new_body, index)

    ld.LiteralCollector._add_occurences_from_conditionals = patched

    def undo() -> None:
        ld.LiteralCollector._add_occurences_from_conditionals = orig

    return undo


# ----------------------------------------------------------------------------------------------------------------
# KF-minmax-empty-domain: the '#inf/#sup' result rule '__max(G,#inf) :- __min_dom(X); not __chain(G,X); lits.' needs the
# domain's extreme element to exist; with an empty candidate domain the result atom is not derived at all.
# The rule text is pinned by dozens of stored expectations in tests/test_minmax_aggregates.py.
# ----------------------------------------------------------------------------------------------------------------
@repair("minmax-empty-domain")
def _minmax_empty_domain() -> Callable[[], None]:
    import ngo.minmax_aggregates as mm
    from clingo.ast import ConditionalLiteral
    from ngo.utils.ast import LOC

    orig = mm.MinMaxAggregator._create_aggregate_replacement

    def patched(self, agg, elem, rest_vars, new_predicate, lits_with_vars):  # type: ignore[no-untyped-def]
        ret = orig(self, agg, elem, rest_vars, new_predicate, lits_with_vars)
        last = ret[-1]
        body = list(last.body)
        extreme, notchain = body[0], body[1]
        ret[-1] = last.update(body=[ConditionalLiteral(LOC, notchain, [extreme])] + body[2:])
        return ret

    mm.MinMaxAggregator._create_aggregate_replacement = patched

    def undo() -> None:
        mm.MinMaxAggregator._create_aggregate_replacement = orig

    return undo


# ----------------------------------------------------------------------------------------------------------------
# KF-domain-under-negation: DomainPredicates.add_domain_rules replaces every atom of a defining body by its domain
# predicate, also under 'not' and inside the condition of a conditional literal, where a larger set makes the body
# *harder* to satisfy: '__dom_p(V) :- d(V); not __dom_q(V).' under-approximates p.  Pinned by tests/test_dependency.py
# and tests/test_symmetry.py.  The repair drops such literals from the domain rule (a sound over-approximation).
# ----------------------------------------------------------------------------------------------------------------
@repair("domain-under-negation")
def _domain_under_negation() -> Callable[[], None]:
    import ngo.dependency as dep
    from clingo.ast import ASTType, Sign
    from ngo.utils.ast import Predicate, collect_ast

    orig = dep.DomainPredicates.add_domain_rules

    def patched(self, domain_rules):  # type: ignore[no-untyped-def]
        def dynamic(node) -> bool:  # type: ignore[no-untyped-def]
            for atom in collect_ast(node, "SymbolicAtom"):
                if atom.symbol.ast_type == ASTType.Function and not self.is_static(
                    Predicate(atom.symbol.name, len(atom.symbol.arguments))
                ):
                    return True
            return False

        new = {}
        for pred, rules in domain_rules.items():
            new_rules = []
            for head, condition in rules:
                kept = []
                for cond in condition:
                    if cond.ast_type == ASTType.Literal and cond.sign == Sign.Negation and dynamic(cond):
                        continue
                    if cond.ast_type == ASTType.ConditionalLiteral and (
                        any(dynamic(c) for c in cond.condition) or (cond.literal.sign == Sign.Negation and dynamic(cond.literal))
                    ):
                        continue
                    kept.append(cond)
                new_rules.append((head, kept))
            new[pred] = new_rules
        return orig(self, new)

    dep.DomainPredicates.add_domain_rules = patched

    def undo() -> None:
        dep.DomainPredicates.add_domain_rules = orig

    return undo


# ----------------------------------------------------------------------------------------------------------------
# KF-sumchains-anon-group: an anonymous group argument ('#sum { L : shift(_,L) }', ':~ shift(_,L). [L@0]') merges the
# chains of all groups under the constant 'none'.  The generated text is pinned by tests/test_sum_aggregates.py.
# ----------------------------------------------------------------------------------------------------------------
@repair("sumchains-anon-group")
def _sumchains_anon_group() -> Callable[[], None]:
    import ngo.sum_aggregates as sa
    from clingo.ast import ASTType

    orig = sa.SumAggregator._group_is_visible

    def patched(trigger, terms, outer_vars):  # type: ignore[no-untyped-def]
        trigger_lit, _, anon = trigger
        for index, arg in enumerate(trigger_lit.atom.symbol.arguments):
            if index not in anon.annotated_positions and arg.ast_type == ASTType.Variable and arg.name == "_":
                return False
        return orig(trigger, terms, outer_vars)

    sa.SumAggregator._group_is_visible = staticmethod(patched)

    def undo() -> None:
        sa.SumAggregator._group_is_visible = staticmethod(orig)

    return undo


# ----------------------------------------------------------------------------------------------------------------
# KF-sumchains-head-tuple: a head '#sum { 1 : shift(D,L) : len(L) } <= 1' is taken as 'at most one shift atom per D'
# although the tuple '1' does not contain L: all atoms share one tuple, the bound does not limit them.
# Pinned by tests/test_sum_aggregates.py::test_sum_aggregates_bound_detection.
# ----------------------------------------------------------------------------------------------------------------
@repair("sumchains-head-tuple")
def _sumchains_head_tuple() -> Callable[[], None]:
    import ngo.sum_aggregates as sa
    from clingo.ast import ASTType
    from ngo.utils.ast import collect_ast, collect_binding_information_body

    orig = sa.SumAggregator._calc_at_most_on_rule

    def patched(self, rule):  # type: ignore[no-untyped-def]
        head = rule.head
        if head.ast_type == ASTType.HeadAggregate:
            global_vars = collect_binding_information_body(rule.body)[0]
            for elem in head.elements:
                lit = elem.condition.literal
                local = set(collect_ast(lit, "Variable")) - set(global_vars)
                tuple_vars = set()
                for t in elem.terms:
                    tuple_vars.update(collect_ast(t, "Variable"))
                if {v for v in local if v.name != "_"} - tuple_vars:
                    return ([], [])
        return orig(self, rule)

    sa.SumAggregator._calc_at_most_on_rule = patched

    def undo() -> None:
        sa.SumAggregator._calc_at_most_on_rule = orig

    return undo


# ----------------------------------------------------------------------------------------------------------------
# KF-math-unsolvable: Goebner.remove_unneeded_formulas drops a formula because its unneeded variable occurs nowhere
# else, without checking that the formula can always be solved for that variable over the integers
# ('a :- b(X), X = Y*3.' -> 'a :- b(X).').  Pinned by tests/test_math_simplification.py.
# ----------------------------------------------------------------------------------------------------------------
@repair("math-unsolvable")
def _math_unsolvable() -> Callable[[], None]:
    from collections import defaultdict

    import ngo.math_simplification as ms
    from sympy import Poly

    orig = ms.Goebner.remove_unneeded_formulas

    def patched(self, formulas, needed_symbols):  # type: ignore[no-untyped-def]
        var_stats = defaultdict(list)
        for f in formulas:
            for v in set(f.free_symbols) & set(self._fo_vars.keys()):
                var_stats[v].append(f)
        ret = list(formulas)
        for v in set(var_stats.keys()) - needed_symbols:
            if len(var_stats[v]) == 1 and var_stats[v][0] in ret:
                f = var_stats[v][0]
                try:
                    poly = Poly(f, v)
                    unit = poly.degree() == 1 and poly.coeff_monomial(v) in (1, -1)
                except Exception:  # pylint: disable=broad-exception-caught
                    unit = False
                if unit:
                    ret.remove(f)
                else:
                    # not always solvable over the integers: the statement has to stay as it is
                    raise ms.SympyApi("relation is not always solvable for the eliminated variable")
        return ret

    ms.Goebner.remove_unneeded_formulas = patched

    def undo() -> None:
        ms.Goebner.remove_unneeded_formulas = orig

    return undo


# ----------------------------------------------------------------------------------------------------------------
# KF-math-recursive-aggregate: math removes or reshapes an aggregate although the aggregate ranges over the
# predicate the rule defines (recursion through an aggregate): 'a(X) :- p(X), N = #sum{V : a(V)}.' -> 'a(X) :- p(X).'
# changes the number of answer sets.  The RuleDependency built in MathSimplification.__init__ is never used.
# ----------------------------------------------------------------------------------------------------------------
@repair("math-recursive-aggregate")
def _math_recursive_aggregate() -> Callable[[], None]:
    import networkx as nx

    import ngo.math_simplification as ms
    from clingo.ast import ASTType
    from ngo.normalize import exline_arithmetic
    from ngo.utils.ast import SIGNS, body_predicates, collect_ast, headderivable_predicates, literal_predicate

    attr = "_vf_inner_execute" if hasattr(ms.MathSimplification, "_vf_inner_execute") else "execute"  # inside the stage tracer
    orig = getattr(ms.MathSimplification, attr)

    def patched(self, prg, optimize=True):  # type: ignore[no-untyped-def]
        prg = list(prg)
        ret = orig(self, prg, optimize)
        base = exline_arithmetic(prg)
        if len(ret) != len(base):
            return ret
        graph = nx.DiGraph()
        for stm in base:
            if stm.ast_type == ASTType.Rule:
                for h in headderivable_predicates(stm):
                    for b in body_predicates(stm, SIGNS):
                        graph.add_edge(b.pred, h.pred)
        out = []
        for old, new in zip(base, ret):
            keep_old = False
            if old.ast_type == ASTType.Rule:
                heads = {h.pred for h in headderivable_predicates(old)}
                for blit in old.body:
                    if blit.ast_type == ASTType.Literal and blit.atom.ast_type == ASTType.BodyAggregate:
                        inside = set()
                        for elem in blit.atom.elements:
                            for c in elem.condition:
                                inside.update(p.pred for p in literal_predicate(c, SIGNS))
                        for h in heads:
                            for p in inside:
                                if p == h or (p in graph and h in graph and nx.has_path(graph, h, p)):
                                    keep_old = True
            out.append(old if keep_old else new)
        return out

    setattr(ms.MathSimplification, attr, patched)

    def undo() -> None:
        setattr(ms.MathSimplification, attr, orig)

    return undo


# ----------------------------------------------------------------------------------------------------------------
# KF-math-symbolic-constant: Goebner._to_sympy_term turns every 0-ary symbol into an integer symbol, so a symbolic
# constant ends up inside arithmetic ('Y = c, X < Y' -> '0 > (X+(-1*c))'), which clingo cannot evaluate; the
# comparison by term order is lost.  A #const name cannot be told apart from a real constant at this point.
# ----------------------------------------------------------------------------------------------------------------
@repair("math-symbolic-constant")
def _math_symbolic_constant() -> Callable[[], None]:
    import ngo.math_simplification as ms
    from clingo import SymbolType
    from clingo.ast import ASTType

    orig = ms.Goebner._to_sympy_term

    def patched(self, t):  # type: ignore[no-untyped-def]
        if t.ast_type == ASTType.SymbolicTerm and t.symbol.type == SymbolType.Function:
            return None
        if t.ast_type == ASTType.Function and not t.arguments:
            return None
        return orig(self, t)

    ms.Goebner._to_sympy_term = patched

    def undo() -> None:
        ms.Goebner._to_sympy_term = orig

    return undo


# ----------------------------------------------------------------------------------------------------------------
# KF-inline-circular: inline_rule inlines 'Z = t' although t mentions a variable Y that is assigned by an aggregate
# whose elements mention Z ('foo1 :- c(Z), X = {b}, Y = {1>Z}, Z = 3*Y*X.'): the result is cyclic and unsafe.
# ----------------------------------------------------------------------------------------------------------------
@repair("inline-circular")
def _inline_circular() -> Callable[[], None]:
    import ngo.normalize as nz
    from clingo.ast import ASTType
    from ngo.utils.ast import collect_ast

    orig_rule = nz.inline_rule
    orig_inl = nz._inlinable
    state: dict = {"assigned": {}}

    def inline_rule(stm):  # type: ignore[no-untyped-def]
        assigned = {}
        if stm.ast_type in (ASTType.Rule, ASTType.Minimize):
            for blit in stm.body:
                if blit.ast_type == ASTType.Literal and blit.atom.ast_type == ASTType.BodyAggregate:
                    inner = set()
                    for elem in blit.atom.elements:
                        inner.update(v.name for v in collect_ast(elem, "Variable"))
                    for guard in (blit.atom.left_guard, blit.atom.right_guard):
                        if guard is not None:
                            for v in collect_ast(guard, "Variable"):
                                assigned.setdefault(v.name, set()).update(inner)
        old = state["assigned"]
        state["assigned"] = assigned
        try:
            return orig_rule(stm)
        finally:
            state["assigned"] = old

    def _inlinable(var, rest):  # type: ignore[no-untyped-def]
        if not orig_inl(var, rest):
            return False
        for v in collect_ast(rest, "Variable"):
            if var.name in state["assigned"].get(v.name, set()):
                return False
        return True

    nz.inline_rule = inline_rule
    nz._inlinable = _inlinable

    def undo() -> None:
        nz.inline_rule = orig_rule
        nz._inlinable = orig_inl

    return undo


# ----------------------------------------------------------------------------------------------------------------
# KF-unused-copy-repeated-head: remove_single_copies treats 'a(X,X) :- e(X,Y).' as a copy rule; replacing a(X,Y) by
# the body atom loses the equality of the two arguments (or produces unsafe rules).  A stored expectation of
# tests/test_unused.py ('b(X,X,A) :- a(X,_,f(A)). c(X*Z) :- b(X,X,Z).') pins the replacement for such heads.
# ----------------------------------------------------------------------------------------------------------------
@repair("unused-copy-repeated-head")
def _unused_copy_repeated_head() -> Callable[[], None]:
    import ngo.unused as un
    from clingo.ast import ASTType, Sign
    from ngo.utils.ast import is_predicate

    orig = un.RuleDependency.get_rules_that_derive

    class _Two(list):
        pass

    def patched(self, head):  # type: ignore[no-untyped-def]
        rules = orig(self, head)
        if len(rules) == 1:
            hlit = rules[0].head
            if is_predicate(hlit) and hlit.sign == Sign.NoSign:
                args = list(hlit.atom.symbol.arguments)
                if all(a.ast_type == ASTType.Variable for a in args) and len(set(args)) != len(args):
                    return _Two([rules[0], rules[0]])  # not a single plain copy: remove_single_copies skips it
        return rules

    un.RuleDependency.get_rules_that_derive = patched

    def undo() -> None:
        un.RuleDependency.get_rules_that_derive = orig

    return undo


# ----------------------------------------------------------------------------------------------------------------
# KF-assignment-global-equality: replace_simple_assignments_aggregate (symmetry's preparation step) removes 'X = W'
# from an aggregate element and renames inside the element only, also when both variables are bound outside of the
# aggregate, where the equality is a test: 'cnt(X,N) :- d(X), e(W), N = #min { Y : s(Y), X = W }.' loses it.
# Pinned by tests/test_ast.py::test_replace_simple_assignments ('B = A' with A, B bound by bar(A,B)).
# ----------------------------------------------------------------------------------------------------------------
@repair("assignment-global-equality")
def _assignment_global_equality() -> Callable[[], None]:
    import ngo.utils.ast as ua

    orig = ua.replace_simple_assignments_aggregate

    def patched(lit):  # type: ignore[no-untyped-def]
        return lit

    ua.replace_simple_assignments_aggregate = patched

    def undo() -> None:
        ua.replace_simple_assignments_aggregate = orig

    return undo
