"""Driver: persistent killable worker processes speaking JSONL over pipes (DESIGN section 2)."""
from __future__ import annotations

import json
import os
import queue
import select
import subprocess
import sys
import threading
import time
from typing import Callable, Iterable, Optional

HERE = os.path.dirname(os.path.dirname(os.path.abspath(__file__)))
PYTHON = os.environ.get("VF_PYTHON", "/venv/bin/python")
REPO = os.environ.get("VERIF_REPO", "/repo")
MEM_LIMIT = int(os.environ.get("VF_MEM_MB", "3000")) * 1024 * 1024


def ensure_deps() -> None:
    """icontract beside the repository's interpreter, from the offline wheelhouse"""
    deps = os.path.join(HERE, ".deps")
    if os.path.isdir(os.path.join(deps, "icontract")):
        return
    os.makedirs(deps, exist_ok=True)
    cmd = [PYTHON, "-m", "pip", "install", "-q", "--no-index", "--find-links", "/opt/veriftools/wheels", "--target", deps, "icontract"]
    subprocess.run(cmd, check=True, stdout=subprocess.DEVNULL, stderr=subprocess.PIPE)


def worker_env(hashseed: int) -> dict:
    env = dict(os.environ)
    env["PYTHONHASHSEED"] = str(hashseed)
    env["PYTHONPATH"] = os.pathsep.join([os.path.join(REPO, "src"), HERE, os.path.join(HERE, ".deps")])
    env["VERIF_REPO"] = REPO
    env["PYTHONDONTWRITEBYTECODE"] = "1"
    return env


class Worker:
    def __init__(self, hashseed: int):
        self.hashseed = hashseed
        self.proc: Optional[subprocess.Popen] = None
        self.spawn()

    def spawn(self) -> None:
        self.proc = subprocess.Popen(
            [PYTHON, "-m", "vflib.worker", str(MEM_LIMIT)],
            stdin=subprocess.PIPE,
            stdout=subprocess.PIPE,
            stderr=subprocess.DEVNULL,
            env=worker_env(self.hashseed),
            cwd=HERE,
        )

    def kill(self) -> None:
        if self.proc is not None:
            try:
                self.proc.kill()
                self.proc.wait(timeout=10)
            except Exception:  # pylint: disable=broad-exception-caught
                pass
            self.proc = None

    def request(self, case: dict, timeout: float) -> dict:
        if self.proc is None or self.proc.poll() is not None:
            self.spawn()
        assert self.proc is not None and self.proc.stdin and self.proc.stdout
        try:
            self.proc.stdin.write((json.dumps(case) + "\n").encode())
            self.proc.stdin.flush()
        except (BrokenPipeError, OSError):
            self.kill()
            return {"id": case.get("id"), "verdict": "inconclusive", "reason": "worker-died-before-case"}
        deadline = time.time() + timeout
        buf = b""
        fd = self.proc.stdout.fileno()
        while True:
            left = deadline - time.time()
            if left <= 0:
                self.kill()
                return {"id": case.get("id"), "verdict": "inconclusive", "reason": "wall-clock-kill"}
            ready, _, _ = select.select([fd], [], [], min(left, 1.0))
            if ready:
                chunk = os.read(fd, 1 << 16)
                if not chunk:
                    self.kill()
                    return {"id": case.get("id"), "verdict": "inconclusive", "reason": "worker-died"}
                buf += chunk
                if b"\n" in buf:
                    line, _, rest = buf.partition(b"\n")
                    assert not rest.strip(), "protocol desync"
                    try:
                        return json.loads(line)
                    except ValueError:
                        self.kill()
                        return {"id": case.get("id"), "verdict": "inconclusive", "reason": "bad-protocol-line"}
            elif self.proc.poll() is not None:
                self.kill()
                return {"id": case.get("id"), "verdict": "inconclusive", "reason": "worker-died"}


def run_cases(
    cases: Iterable[dict],
    jobs: int = 16,
    timeout: float = 60.0,
    budget_s: Optional[float] = None,
    on_result: Optional[Callable[[dict, dict], None]] = None,
    default_hashseed: int = 0,
) -> tuple[int, int]:
    """run all cases; returns (run, not_run). on_result(case, result) is called in the driver thread-safely."""
    ensure_deps()
    q: "queue.Queue[Optional[dict]]" = queue.Queue()
    n = 0
    ordered = sorted(cases, key=lambda c: int(c.get("hashseed", default_hashseed)))  # stable: keeps generator order per seed
    for c in ordered:
        q.put(c)
        n += 1
    lock = threading.Lock()
    done = [0]
    t0 = time.time()
    stop = threading.Event()

    def loop() -> None:
        worker: Optional[Worker] = None
        try:
            while not stop.is_set():
                try:
                    case = q.get_nowait()
                except queue.Empty:
                    return
                if case is None:
                    return
                if budget_s is not None and time.time() - t0 > budget_s:
                    return
                hs = int(case.get("hashseed", default_hashseed))
                if worker is not None and (case.get("fresh_worker") or worker.hashseed != hs):
                    worker.kill()
                    worker = None
                if worker is None:
                    worker = Worker(hs)
                res = worker.request(case, float(case.get("timeout", timeout)))
                with lock:
                    done[0] += 1
                    if on_result:
                        on_result(case, res)
        finally:
            if worker is not None:
                try:
                    if worker.proc and worker.proc.stdin:
                        worker.proc.stdin.close()
                except Exception:  # pylint: disable=broad-exception-caught
                    pass
                worker.kill()

    threads = [threading.Thread(target=loop, daemon=True) for _ in range(max(1, min(jobs, n)))]
    for t in threads:
        t.start()
    for t in threads:
        t.join()
    return done[0], n - done[0]
