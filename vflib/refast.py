"""Reference traversal of clingo ASTs, written independently of ngo.utils.ast.

One generic walker over `child_keys`; roles are decided structurally.  Used by the C18
reference collector, the C07 structural monitors, vocabulary computation for the oracle
and the instance generator (which argument positions are arithmetic).
"""
from __future__ import annotations

from typing import Iterator, Optional

from clingo.ast import AST, ASTType, Sign, UnaryOperator

PASS_THROUGH = {
    ASTType.ShowSignature,
    ASTType.ShowTerm,
    ASTType.Definition,
    ASTType.External,
    ASTType.Program,
    ASTType.Script,
    ASTType.TheoryDefinition,
    ASTType.Heuristic,
    ASTType.Edge,
    ASTType.ProjectAtom,
    ASTType.ProjectSignature,
    ASTType.Defined,
}


def children(node: AST) -> Iterator[AST]:
    for key in node.child_keys:
        val = getattr(node, key)
        if val is None:
            continue
        if isinstance(val, AST):
            yield val
        else:
            try:
                for v in val:
                    if isinstance(v, AST):
                        yield v
            except TypeError:
                pass


def walk(node: AST) -> Iterator[AST]:
    yield node
    for c in children(node):
        yield from walk(c)


def atom_sig(atom: AST) -> Optional[tuple]:
    """(name, arity, classical_negation) of a SymbolicAtom, None for non-function symbols"""
    sym = atom.symbol
    neg = False
    while sym.ast_type == ASTType.UnaryOperation and sym.operator_type == UnaryOperator.Minus:
        neg = not neg
        sym = sym.argument
    if sym.ast_type == ASTType.Function:
        return (sym.name, len(sym.arguments), neg)
    return None


def _sym_atoms(node: AST) -> Iterator[AST]:
    for n in walk(node):
        if n.ast_type == ASTType.SymbolicAtom:
            yield n


def positive_head_atoms(stm: AST) -> list[AST]:
    """SymbolicAtom nodes that the statement can derive (plain head, choice/disjunction element literal,
    head-aggregate element literal), positive sign only"""
    out: list[AST] = []
    if stm.ast_type != ASTType.Rule:
        return out
    head = stm.head

    def lit_atom(lit: AST) -> None:
        if lit.ast_type == ASTType.Literal and lit.sign == Sign.NoSign and lit.atom.ast_type == ASTType.SymbolicAtom:
            out.append(lit.atom)

    if head.ast_type == ASTType.Literal:
        lit_atom(head)
    elif head.ast_type in (ASTType.Disjunction, ASTType.Aggregate):
        for el in head.elements:
            if el.ast_type == ASTType.ConditionalLiteral:
                lit_atom(el.literal)
    elif head.ast_type == ASTType.HeadAggregate:
        for el in head.elements:
            if el.ast_type == ASTType.HeadAggregateElement and el.condition.ast_type == ASTType.ConditionalLiteral:
                lit_atom(el.condition.literal)
    return out


def occurrences(stm: AST) -> list[tuple]:
    """every predicate occurrence of a statement as (name, arity, classical_neg, role);
    role 'head' = positive derivable head atom, 'other' = anything else"""
    heads = positive_head_atoms(stm)
    out = []
    for h in heads:
        sig = atom_sig(h)
        if sig:
            out.append(sig + ("head",))

    def rec(node: AST) -> None:
        if node.ast_type == ASTType.SymbolicAtom:
            sig = atom_sig(node)
            if sig:
                out.append(sig + ("other",))
            return
        for c in children(node):
            rec(c)

    if stm.ast_type == ASTType.Rule:
        head = stm.head
        # non-derivable parts of the head
        if head.ast_type == ASTType.Literal:
            if not (head.sign == Sign.NoSign and head.atom.ast_type == ASTType.SymbolicAtom):
                rec(head)
        elif head.ast_type in (ASTType.Disjunction, ASTType.Aggregate):
            for g in (getattr(head, "left_guard", None), getattr(head, "right_guard", None)):
                if g is not None:
                    rec(g)
            for el in head.elements:
                lit = el.literal
                if not (lit.sign == Sign.NoSign and lit.atom.ast_type == ASTType.SymbolicAtom):
                    rec(lit)
                for c in el.condition:
                    rec(c)
        elif head.ast_type == ASTType.HeadAggregate:
            for g in (head.left_guard, head.right_guard):
                if g is not None:
                    rec(g)
            for el in head.elements:
                for t in el.terms:
                    rec(t)
                cl = el.condition
                lit = cl.literal
                if not (lit.sign == Sign.NoSign and lit.atom.ast_type == ASTType.SymbolicAtom):
                    rec(lit)
                for c in cl.condition:
                    rec(c)
        else:
            rec(head)
        for b in stm.body:
            rec(b)
    else:
        rec(stm)
    return out


def unpooled(prg: list[AST]) -> list[AST]:
    """pools hide the predicate of an atom (its symbol is a Pool, not a Function): analyse the unpooled statements"""
    out: list[AST] = []
    for stm in prg:
        try:
            out.extend(stm.unpool())
        except (RuntimeError, AttributeError):
            out.append(stm)
    return out


def vocabulary(prg: list[AST]) -> set:
    """all (name, arity) pairs occurring anywhere in the program (classical negation as '-name')"""
    voc = set()
    for stm in unpooled(prg):
        for n in _sym_atoms(stm):
            sig = atom_sig(n)
            if sig:
                voc.add((("-" if sig[2] else "") + sig[0], sig[1]))
        if stm.ast_type in (ASTType.ShowSignature, ASTType.ProjectSignature, ASTType.Defined):
            voc.add((("" if stm.positive else "-") + stm.name, stm.arity))
    return voc


def head_predicates(prg: list[AST]) -> set:
    out = set()
    for stm in unpooled(prg):
        for h in positive_head_atoms(stm):
            sig = atom_sig(h)
            if sig:
                out.add((("-" if sig[2] else "") + sig[0], sig[1]))
    return out


def open_predicates(prg: list[AST]) -> set:
    """U of property C18: occurs in a rule/objective, never a positive head atom. (classical negation excluded)"""
    occ, heads = set(), set()
    for stm in unpooled(prg):
        if stm.ast_type not in (ASTType.Rule, ASTType.Minimize):
            continue
        for name, arity, neg, role in occurrences(stm):
            if neg:
                continue
            occ.add((name, arity))
            if role == "head":
                heads.add((name, arity))
    return occ - heads


def has_classical_negation(prg: list[AST]) -> bool:
    for stm in unpooled(prg):
        for n in _sym_atoms(stm):
            sig = atom_sig(n)
            if sig and sig[2]:
                return True
    return False


def variables(node: AST) -> list[str]:
    return [n.name for n in walk(node) if n.ast_type == ASTType.Variable]


# --------------------------------------------------------------------------------------
# which argument positions are used arithmetically (instance generator hint)
# --------------------------------------------------------------------------------------

_ARITH_NODES = {ASTType.BinaryOperation, ASTType.UnaryOperation, ASTType.Interval}


def _numeric_vars(stm: AST) -> set:
    """variables of a statement that are compared, computed with, used as weight/priority/guard"""
    num: set = set()
    for n in walk(stm):
        t = n.ast_type
        if t in _ARITH_NODES:
            if t == ASTType.UnaryOperation and n.operator_type == UnaryOperator.Minus and n.argument.ast_type == ASTType.Function:
                continue
            num.update(variables(n))
        elif t == ASTType.Comparison:
            num.update(variables(n))
        elif t == ASTType.Guard:
            num.update(variables(n))
        elif t == ASTType.BodyAggregateElement or t == ASTType.HeadAggregateElement:
            if n.terms:
                num.update(variables(n.terms[0]))
        elif t == ASTType.Minimize:
            num.update(variables(n.weight))
            num.update(variables(n.priority))
    return num


def numeric_positions(prg: list[AST]) -> set:
    """fixpoint: (name, arity, index) is numeric if a variable at that position is numeric in some statement,
    or shares a statement variable with a numeric position"""
    numeric: set = set()
    per_stm = []
    for stm in prg:
        base = _numeric_vars(stm)
        occs = []  # (sig, idx, var names in that argument, is plain variable)
        for n in _sym_atoms(stm):
            sig = atom_sig(n)
            if not sig:
                continue
            sym = n.symbol
            while sym.ast_type == ASTType.UnaryOperation:
                sym = sym.argument
            for i, arg in enumerate(sym.arguments):
                occs.append(((sig[0], sig[1]), i, set(variables(arg)), arg))
                if any(x.ast_type in _ARITH_NODES for x in walk(arg)):
                    numeric.add((sig[0], sig[1], i))
                if arg.ast_type == ASTType.SymbolicTerm and str(arg.symbol).lstrip("-").isdigit():
                    # integer constant in this position: keep the position integer-friendly
                    numeric.add((sig[0], sig[1], i))
        per_stm.append((base, occs))
    changed = True
    while changed:
        changed = False
        for base, occs in per_stm:
            nv = set(base)
            for sig, i, vs, _ in occs:
                if (sig[0], sig[1], i) in numeric:
                    nv |= vs
            for sig, i, vs, _ in occs:
                if vs & nv and (sig[0], sig[1], i) not in numeric:
                    numeric.add((sig[0], sig[1], i))
                    changed = True
    return numeric
