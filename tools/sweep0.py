"""ad-hoc first sweep: corpus x single traits, all checkers, print violation clusters"""
import sys, json, random, collections, time
sys.path.insert(0, "/verif")
from vflib import cases, driver
from vflib.traits import TRAITS
rng = random.Random(0)
cs = []
for r in cases.corpus():
    cfgs = [[t] for t in TRAITS] + [[], cases.DEFAULT, cases.ALL]
    for tr in cfgs:
        inn = cases.explicit_in(r["program"], r.get("input_predicates"))
        out = r.get("output_predicates")
        if out is None:
            out = [list(p) for p in cases.head_preds(r["program"])]
        bij = not ({"unused", "inline"} & set(tr))
        cs.append({"id": f"{r['id']}|{','.join(tr)}", "prop": "C01", "kind": "opt", "program": r["program"], "in": inn, "out": out, "traits": tr,
                   "n_inst": 6, "inst_seed": 1, "checks": ["c03", "equiv", "c04", "c07", "purity", "stdout", "c20"],
                   "mode": {"kind": "bij" if bij else "set", "voc": "source" if bij else "inout", "cost": True}})
print(len(cs), "cases")
stats = collections.Counter(); clusters = collections.defaultdict(list)
t0 = time.time()
def on(case, res):
    stats[res["verdict"] + ":" + str(res.get("reason", ""))] += 1
    for v in res.get("violations", []):
        b = v.get("blame", {})
        key = (v["property"], v["kind"], b.get("step") or (v.get("exception") or {}).get("type"), ((v.get("exception") or {}).get("site") or {}).get("function"))
        clusters[key].append((case["id"], v))
    if res.get("reason") == "harness-error":
        print("HARNESS", case["id"], res.get("error"), res.get("tb"))
driver.run_cases(cs, jobs=16, timeout=120, on_result=on)
print(time.time() - t0, "s")
for k, v in sorted(stats.items()): print(k, v)
json.dump({str(k): v[:5] for k, v in clusters.items()}, open("/tmp/sweep0.json", "w"), indent=1, default=str)
for k, v in sorted(clusters.items(), key=lambda kv: -len(kv[1])):
    print(len(v), k, v[0][0])
