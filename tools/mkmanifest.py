#!/venv/bin/python
"""regenerate MANIFEST.json from the registered profiles"""
import json
import sys

sys.path.insert(0, "/verif")
from vflib import profiles_all  # noqa: F401,E402
from vflib.profiles import REGISTRY  # noqa: E402

LEVEL_TEXT = {
    "default": "Exploration by runtime monitoring: the real ngo code runs on an enumerated, seed-selected workload while harness-side monitors "
    "(stage tracer, contracts, clingo answer-set oracle) judge every execution. It shows the property held on the executions listed in the evidence; "
    "it is not a proof for inputs that were not run. This is the level the technique family can give for a source-to-source rewriter whose correctness is relative to arbitrary instances.",
}
checks = []
for prop in sorted(REGISTRY):
    p = REGISTRY[prop]
    checks.append(
        {
            "property_id": prop,
            "quick_cmd": f"./vf quick {prop}",
            "thorough_cmd": f"./vf thorough {prop}",
            "evidence_file": f"evidence/{prop}.json",
            "replay_cmd_template": "./vf replay {path}",
            "engine": "vf",
            "level_claimed": {"category": "exploration", "text": (p.level_text or LEVEL_TEXT["default"]) + " Deciding rule: " + p.rule, "design_ref": f"DESIGN.md section {p.design_ref}"},
            "level_note": p.level_note
            or "Trusted: clingo 5.8.2 (grounder, solver, Model.cost/priority) as reference semantics; the harness's reference AST traversal (vflib/refast.py); instance pools are small and boundary-biased; "
            "known findings listed in known_findings.json are reported as KNOWN-FINDING and do not fail the check.",
            "technique": p.technique,
        }
    )
manifest = {
    "version": 1,
    "setup_cmd": "./vf setup",
    "hooks": {
        "guard": "NGO_VERIF",
        "enable": "no source hook is needed: all monitors are attached harness-side by replacing class/module attributes of the imported ngo modules (vflib/monitors.py); NGO_VERIF is reserved and unused",
        "baseline_off_cmd": "cd /repo && /venv/bin/python -m pytest -ra -q -p no:cacheprovider --timeout=900 --continue-on-collection-errors",
        "source_commits": [],
        "add_only": True,
    },
    "engines": [{"name": "vf", "path": "vf", "serves_properties": sorted(REGISTRY), "kind_free_text": "runtime monitoring engine: killable worker processes run the real ngo.optimize / python -m ngo under harness-side monitors; clingo enumeration is the oracle"}],
    "checks": checks,
    "notes": "One engine, twenty profiles. VERIF_SEED selects the slice of the finite case space and the instance seeds; VERIF_REPO overrides the repository root (used by ./vf selftest on scratch copies).",
    "not_applicable": [],
}
json.dump(manifest, open("/verif/MANIFEST.json", "w"), indent=1)
print(len(checks), "checks")
