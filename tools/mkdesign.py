#!/venv/bin/python
"""tools/mkdesign.py : regenerate the known-finding tables of DESIGN.md (between the KF-TABLES markers) and the
seeded-change table (between the SEEDED-TABLE markers) from known_findings.json and seeded/*/meta.json"""
import json
import os
import subprocess

HERE = os.path.dirname(os.path.dirname(os.path.abspath(__file__)))


def kf_tables() -> str:
    d = json.load(open(os.path.join(HERE, "known_findings.json")))
    op = [f for f in d["findings"] if f.get("status") != "fixed"]
    fx = [f for f in d["findings"] if f.get("status") == "fixed"]
    out = ["#### Open known findings (%d)\n" % len(op), "| id | properties | what fails | classifier |", "|---|---|---|---|"]
    for f in op:
        reps = sorted({m.get("repair") for m in f.get("match", []) if m.get("repair")})
        cl = ("signature + counterfactual repair `%s`" % ", ".join(reps)) if reps else "signature"
        what = f["what"].replace("|", "\\|").replace("\n", " ")
        if len(what) > 330:
            what = what[:327] + "..."
        out.append(f"| {f['id']} | {' '.join(sorted(f['properties']))} | {what} | {cl} |")
    out.append("\n#### Repaired in /repo (%d entries, oldest first)\n" % len(fx))
    out += ["| commit | properties | subject |", "|---|---|---|"]
    order = subprocess.run(["git", "-C", "/repo", "log", "--reverse", "--format=%h"], capture_output=True, text=True).stdout.split()
    fx.sort(key=lambda f: order.index(f["commit"]) if f["commit"] in order else 999)
    for f in fx:
        subj = f["what"].replace("|", "\\|")
        out.append(f"| {f['commit']} | {' '.join(sorted(f['properties']))} | {subj} |")
    return "\n".join(out) + "\n"


def seeded_table() -> str:
    root = os.path.join(HERE, "seeded")
    out = ["| change | file(s) | what it breaks / needs | caught by quick check | first violation (kind @ case) |", "|---|---|---|---|---|"]
    for sid in sorted(os.listdir(root)):
        mp = os.path.join(root, sid, "meta.json")
        if not os.path.exists(mp):
            continue
        m = json.load(open(mp))
        fv = m.get("first_violation") or {}
        title = m["title"].replace("|", "\\|")
        needs = m.get("needs", "").replace("|", "\\|").replace("\n", " ")
        if len(needs) > 160:
            needs = needs[:157] + "..."
        out.append(f"| {sid} | {', '.join(os.path.basename(f) for f in m['files'])} | {title}. Needs: {needs} | {'yes' if m.get('caught_by_quick') else 'NO'} ({', '.join(m['detect_with'])}) | {fv.get('kind')} @ {fv.get('case')} |")
    return "\n".join(out) + "\n"


def between(s: str, tag: str, body: str) -> str:
    a = s.index(f"<!-- {tag}-BEGIN")
    a = s.index("\n", a) + 1
    b = s.index(f"<!-- {tag}-END")
    return s[:a] + body + s[b:]


def main() -> None:
    p = os.path.join(HERE, "DESIGN.md")
    s = open(p).read()
    s = between(s, "KF-TABLES", kf_tables())
    if "<!-- SEEDED-TABLE-BEGIN" in s:
        s = between(s, "SEEDED-TABLE", seeded_table())
    open(p, "w").write(s)


if __name__ == "__main__":
    main()
