#!/venv/bin/python
"""run every witness of known_findings.json against VERIF_REPO (default /repo) and print its verdict"""
import json
import sys

sys.path.insert(0, "/verif")
from vflib import driver  # noqa: E402

data = json.load(open("/verif/known_findings.json"))
cases = []
for f in data["findings"]:
    for prop, ws in f.get("witnesses", {}).items():
        for i, w in enumerate(ws):
            c = dict(w)
            c["id"] = f"{f['id']}|{prop}|{i}"
            c["prop"] = prop
            c["_status"] = f["status"]
            cases.append(c)
res = {}
driver.run_cases(cases, jobs=16, timeout=120, on_result=lambda c, r: res.__setitem__(c["id"], (c, r)))
bad = 0
for cid in sorted(res):
    c, r = res[cid]
    kinds = sorted({(v["property"], v["kind"], v.get("kf")) for v in r.get("violations") or []})
    want_fail = c["_status"] == "open" or "--expect-fail" in sys.argv
    ok = (r.get("verdict") == "violated") == want_fail
    if not ok:
        bad += 1
    print(("ok  " if ok else "BAD ") + cid, r.get("verdict"), r.get("reason", ""), kinds[:3])
print("unexpected:", bad)
