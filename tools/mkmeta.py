#!/venv/bin/python
"""tools/mkmeta.py EVAL.txt : write seeded/<id>/meta.json from the notes of the sub-agent that wrote the change and the
last line per change of an eval_seed.sh log (what I ran and what came out)"""
import json
import os
import re
import sys

root = os.path.join(os.path.dirname(os.path.dirname(os.path.abspath(__file__))), "seeded")
last = {}
for line in open(sys.argv[1]):
    m = re.match(r"(C\d\d)-([A-Z]): (.*)", line)
    if m:
        last[f"{m.group(1)}-{m.group(2)}"] = m.group(3).strip()
for sid in sorted(os.listdir(root)):
    d = os.path.join(root, sid)
    if not os.path.exists(os.path.join(d, "patch.diff")):
        continue
    notes = open(os.path.join(d, "NOTES.md")).read()
    title = notes.splitlines()[0].lstrip("# ").strip()
    m = re.search(r"(?:\*\*)?(?:What is needed|Needed|What it needs|Needs)[^:\n]*(?:\*\*)?:?\*?\*?\s*(.+)", notes, re.I)
    needs = m.group(1).strip() if m else ""
    files = sorted(set(re.findall(r"^\+\+\+ b/(\S+)", open(os.path.join(d, "patch.diff")).read(), re.M)))
    ev = last.get(sid, "")
    m2 = re.search(r"\[(C\d\d) exit=(\d) violations=(\d+)\s*(?:kind=(\S+) case=(\S+))?", ev)
    prop = sid[:3]
    meta = {
        "id": sid,
        "property": prop,
        "title": title,
        "files": files,
        "needs": needs[:1500],
        "origin": "written by a sub-agent that was given only the text of the property and its own git worktree of /repo (nothing from /verif)",
        "confirmed": {
            "how": f"tools/eval_seed.sh {prop} {sid[-1]}: demo.py against the worktree without and with patch.diff, the pinned suite with the patch, then VERIF_REPO=<worktree> ./vf quick {prop}",
            "result": ev[:400],
        },
        "detect_with": [prop],
        "caught_by_quick": bool(m2 and m2.group(2) == "1" and int(m2.group(3)) > 0),
        "first_violation": {"kind": m2.group(4), "case": m2.group(5)} if m2 and m2.group(4) else None,
    }
    json.dump(meta, open(os.path.join(d, "meta.json"), "w"), indent=1)
    print(sid, meta["caught_by_quick"], "| needs:", needs[:90])
