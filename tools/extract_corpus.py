"""One-time extraction of the pinned test-suite's input programs into corpus/tests.json.
Run with /venv/bin/python from /repo. The result is committed; checks never read /repo/tests."""
import importlib, json, sys, glob, os
sys.path.insert(0, "/repo")
sys.path.insert(0, "/repo/src")
from ngo.utils.ast import Predicate
out = []
for f in sorted(glob.glob("/repo/tests/test_*.py")):
    modname = "tests." + os.path.basename(f)[:-3]
    mod = importlib.import_module(modname)
    for name in sorted(dir(mod)):
        fn = getattr(mod, name)
        if not name.startswith("test_") or not callable(fn):
            continue
        for mark in getattr(fn, "pytestmark", []):
            if mark.name != "parametrize":
                continue
            argnames = [a.strip() for a in mark.args[0].split(",")]
            for idx, vals in enumerate(mark.args[1]):
                vals = vals if isinstance(vals, (tuple, list)) else (vals,)
                prg = vals[0]
                if not isinstance(prg, str):
                    continue
                rec = {"id": f"{modname.split('.')[1]}::{name}::{idx}", "file": modname.split(".")[1], "test": name, "program": prg}
                for an, v in zip(argnames, vals):
                    if an in ("input_predicates", "output_predicates") and isinstance(v, list):
                        rec[an] = [[p.name, p.arity] for p in v]
                out.append(rec)
json.dump(out, open("/verif/corpus/tests.json", "w"), indent=0)
print(len(out))
