#!/venv/bin/python
"""Validate a template grid: tools/gridcheck.py <grid> <traits,comma> [bij|set] [--facts any] [--show N]

Reports how many programs parse, are safe, on how many the named pass fired, and what the oracle says.
"""
import collections
import json
import sys

sys.path.insert(0, "/verif")
from vflib import cases, driver, profiles  # noqa: E402


def main() -> None:
    name = sys.argv[1]
    traits = [t for t in sys.argv[2].split(",") if t and t != "none"]
    modekind = sys.argv[3] if len(sys.argv) > 3 and not sys.argv[3].startswith("--") else "bij"
    facts = "any" if "--facts" in sys.argv and sys.argv[sys.argv.index("--facts") + 1] == "any" else "in"
    show = int(sys.argv[sys.argv.index("--show") + 1]) if "--show" in sys.argv else 3
    progs = profiles.grid(name)
    print(f"{len(progs)} programs in grid {name}")
    texts = collections.Counter(p["program"].strip() for p in progs)
    dups = sum(c - 1 for c in texts.values())
    if dups:
        print(f"  {dups} duplicate program texts")
    cs = []
    for p in progs:
        if cases.parse(p["program"]) is None:
            print("DOES NOT PARSE:", p["id"], p["program"])
            continue
        inn, out = profiles.decl_of(p)
        mode = {"kind": "bij", "voc": "source", "cost": True} if modekind == "bij" else {"kind": "set", "voc": "inout", "cost": True}
        cs.append(profiles.opt_case("GRID", p["id"], p["program"], traits, inn, out, mode, ["c03", "equiv", "c04"], 8, 1, tag=p.get("tag"), facts=facts))
    stats = collections.Counter()
    fired = collections.Counter()
    clusters = collections.defaultdict(list)

    def on(case, res):
        stats[res["verdict"] + ":" + str(res.get("reason", ""))] += 1
        if res.get("reason") == "harness-error":
            print("HARNESS", res.get("error"), res.get("tb"))
        ch = [c for c in res.get("changed") or [] if c in traits]
        if ch:
            fired[case.get("tag")] += 1
        stats["fired" if ch else "not-fired"] += 1
        if res.get("verdict") == "inconclusive" and res.get("reason") == "source-unsafe":
            clusters[("unsafe-source", "")].append((case, res))
        for v in res.get("violations") or []:
            b = v.get("blame") or {}
            key = (v["property"], v["kind"], b.get("step") or (v.get("exception") or {}).get("type"), ((v.get("exception") or {}).get("site") or {}).get("function"))
            clusters[key].append((case, v))

    driver.run_cases(cs, jobs=8, timeout=120, on_result=on)
    for k, v in sorted(stats.items()):
        print(f"  {k}: {v}")
    print("fired by tag:", dict(fired))
    for k, v in sorted(clusters.items(), key=lambda kv: -len(kv[1])):
        print(f"== {len(v)} x {k}")
        for case, item in v[:show]:
            print("   case", case["id"], "tag", case.get("tag"))
            print("   program:", case["program"].strip().replace("\n", "\n            "))
            if "verdict" not in item:
                for kk in ("instance", "error", "diff", "blame", "exception", "stmt"):
                    if kk in item:
                        print("     ", kk, json.dumps(item[kk], default=str)[:500])
            else:
                print("     ", item.get("detail"))


if __name__ == "__main__":
    main()
