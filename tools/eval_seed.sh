#!/bin/bash
# tools/eval_seed.sh Cxx A|B [props...] : confirm a seeded change in its worktree and run our quick check(s) against it
id=$1; x=$2; shift; shift; props=${@:-$id}
wt=/tmp/seed_$id
cd $wt || exit 2
git checkout -q -- src; git checkout -q --detach $(git -C /repo rev-parse HEAD) 2>/dev/null
d0=$(PYTHONPATH=$wt/src /venv/bin/python _seed/${x}_demo.py >/dev/null 2>&1; echo $?)
git apply _seed/$x.diff || { echo "$id-$x: PATCH DOES NOT APPLY"; exit 2; }
d1=$(PYTHONPATH=$wt/src /venv/bin/python _seed/${x}_demo.py >/dev/null 2>&1; echo $?)
py=$(PYTHONPATH=$wt/src /venv/bin/python -m pytest -q -p no:cacheprovider -n 8 2>&1 | tail -1)
res=""
for p in $props; do
  out=$(VERIF_REPO=$wt VF_OUT=/tmp/vfout_$id /verif/vf quick $p 2>&1)
  ec=$?
  nv=$(echo "$out" | grep -c "^VIOLATION")
  first=$(echo "$out" | grep -m1 "^  kind=" | cut -c1-220)
  res="$res [$p exit=$ec violations=$nv $first]"
done
git checkout -q -- src; git checkout -q --detach $(git -C /repo rev-parse HEAD) 2>/dev/null
rm -rf /tmp/vfout_$id
echo "$id-$x: demo clean=$d0 patched=$d1; pytest: $py;$res"
