#!/bin/bash
# run the pinned suite on /repo's working tree; commit with the message in file $1 only if all 466 pass
cd /repo || exit 2
out=$(/venv/bin/python -m pytest -q -p no:cacheprovider -n 8 2>&1 | tail -1)
echo "$out"
if echo "$out" | grep -q "^466 passed"; then git commit -qaF "$1" && echo COMMITTED $(git log --oneline | head -1); else echo "NOT COMMITTED"; fi
