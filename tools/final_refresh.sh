#!/bin/bash
# tools/final_refresh.sh : run every quick check once in /verif against /repo (refreshes evidence/), then validate
cd "$(dirname "$0")/.." || exit 2
./vf setup
for p in C01 C02 C03 C04 C05 C06 C07 C08 C09 C10 C11 C12 C13 C14 C15 C16 C17 C18 C19 C20; do
  out=$(./vf quick $p 2>&1); ec=$?
  echo "$p exit=$ec violations=$(echo "$out" | grep -c '^VIOLATION') kf=$(echo "$out" | grep -c '^KNOWN-FINDING') :: $(echo "$out" | grep "^$p quick" | cut -c1-160)"
done
python3-vt - <<'PY'
import json, jsonschema, glob
m=json.load(open('MANIFEST.json')); jsonschema.validate(m, json.load(open('/root/.vp/MANIFEST.schema.json')))
es=json.load(open('/root/.vp/EVIDENCE.schema.json'))
for f in sorted(glob.glob('evidence/*.json')):
    e=json.load(open(f)); jsonschema.validate(e, es)
    assert e['coverage']['distinct_nontrivial']>=2, f
print('schemas ok', len(glob.glob('evidence/*.json')), 'evidence files')
PY
