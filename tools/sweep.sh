#!/bin/bash
# tools/sweep.sh PROP [tier] [seeds...] : triage runs over several seeds, summary lines only (details in /tmp/triage)
p=$1; tier=${2:-quick}; shift; shift
seeds=${@:-0 1 2 3}
mkdir -p /tmp/triage
for s in $seeds; do
  VERIF_SEED=$s VF_TRIAGE=1 VF_TRIAGE_N=${VF_TRIAGE_N:-2} "$(cd "$(dirname "$0")/.." && pwd)/vf" $tier $p > /tmp/triage/$p.$tier.$s.txt 2>&1
  echo "seed $s exit $?: $(grep -v WARNING /tmp/triage/$p.$tier.$s.txt | grep -E "^TRIAGE|^$p " | tr '\n' ' ' | cut -c1-400)"
done
