#!/venv/bin/python
"""(re)generate the 'fixed' entries of known_findings.json from the table below.
Each entry: commit in /repo, property, traits, program, IN, OUT, instances, mode, what failed.
A fixed entry suppresses nothing: its witness is re-run by every check of the property and must pass."""
import json
import subprocess

BIJ = {"kind": "bij", "voc": "source", "cost": True}
SET = {"kind": "set", "voc": "inout", "cost": True}
NONE: list = []

# (subject prefix of the commit, property, traits, program, in, out, instances, mode, checks, extra)
T = [
    ("unused crashes with TypeError", "C03", ["unused"], "1 #sum { X,a : p(X) : dom(X) } 2.\n:- p(X), not dom(X).\n", [["dom", 1]], [], None, None, ["c03"], {}),
    ("math trips an assertion on body aggregates without guards", "C03", ["math"], "{ sel(V) } :- p(V).\na :- #sum { V : sel(V) }.\n", [["p", 1]], [["a", 0]], None, None, ["c03"], {}),
    ("sum_chains trips an assertion when", "C03", ["sum_chains"], "{ shift(D,L) } 1 :- day(D), len(L).\na(X) :- X = #sum {L,D : shift(D,L)}.\n", [["day", 1], ["len", 1]], [["a", 1]], None, None, ["c03"], {}),
    ("cleanup removes 'not p(X)'", "C08", ["cleanup"], "a :- p(X), not p(X).\n", [["p", 1]], [["a", 0]], [["p(1)"]], BIJ, ["equiv"], {}),
    ("postprocess inlines 'X = _'", "C05", [], "a(X) :- p(X), X = _.\n", [], [], [["p(1)"]], BIJ, ["equiv", "c04"], {"facts": "any", "allow_partial_in": True}),
    ("unused drops arguments that only a '#show term", "C09", ["unused"], "t(X,Y) :- e(X,Y).\n#show f(X) : t(X,Y), Y > 1.\nd(X) :- e(X,_).\n#show c(X) : d(X).\n", [["e", 2]], [], [["e(1,2)"]], SET, ["equiv", "c04"], {}),
    ("cleanup unions the implications", "C08", ["cleanup"], "b(X,Y); b(Y,X) :- r(X,Y), dom(X).\na(X,Y) :- b(X,Y), dom(X).\n", [["dom", 1], ["r", 2]], [["a", 2], ["b", 2]], [["dom(a)", "r(a,a)", "r(a,c)"]], BIJ, ["equiv"], {}),
    ("symmetry reads 'not A > B'", "C11", ["symmetry"], ":- p(A,X), p(B,X), not A > B.\n", [["p", 2]], [], [["p(0,a)"]], BIJ, ["equiv"], {}),
    ("symmetry crashes on constant arguments", "C03", ["symmetry"], "h :- 1 <= #count{X : p(A,X,1), p(B,X,1), A != B}.\n", [["p", 3]], [["h", 0]], None, None, ["c03"], {}),
    ("minmax_chains crashes on a #min/#max body aggregate without guards", "C03", ["minmax_chains"], "{ sel(P,V) } :- skill(P,V).\nok(P) :- person(P), #max{V : sel(P,V)}.\n", [["person", 1], ["skill", 2]], [["ok", 1]], None, None, ["c03"], {}),
    ("minmax_chains drops the 'not'", "C12", ["minmax_chains"], "{ sel(P,V) } :- skill(P,V).\nperson(1).\nskill(1,2).\nok(P) :- person(P), not 2 < #max{V : sel(P,V)}.\n", [["person", 1], ["skill", 2]], [["ok", 1], ["sel", 2]], [[]], BIJ, ["equiv"], {}),
    ("sum_chains puts a Variable named 'none'", "C04", ["sum_chains"], "{ shift(D,L) : len(L) } 1 :- day(D).\na(X) :- X = #sum { L : shift(_,L) }.\nb(X) :- X = #sum { L : shift(1,L) }.\n", [["day", 1], ["len", 1]], [["a", 1], ["b", 1]], [["day(1)", "len(1)", "len(2)"]], None, ["c03", "c04"], {}),
    ("sum_chains raises RuntimeError", "C03", ["sum_chains"], "reach(L) :- len(L).\nreach(L) :- reach(M), e(M,L).\n{ shift(D,L) : reach(L) } 1 :- day(D).\na(X) :- X = #sum { L,D : shift(D,L) }.\n", [["day", 1], ["len", 1], ["e", 2]], [["a", 1]], None, None, ["c03"], {}),
    ("binding analysis treats X&1", "C16", ["projection"], "h(A,D) :- q(B), w(B,1..X), s(A,D,X).\nh2(A,D) :- q(B), w(B,X&1), s(A,D,X).\n", [["q", 1], ["w", 2], ["s", 3]], [["h", 2], ["h2", 2]], [["q(1)", "w(1,1)", "w(1,2)", "s(1,2,3)"]], BIJ, ["equiv", "c04"], {}),
    ("binding analysis lets '(X,B) = (B,X)'", "C16", ["projection"], "{ v(X) } :- dv(X).\nh(A,D) :- q(B), v(B), (X,B) = (B,X), s(A,D,X).\n", [["q", 1], ["dv", 1], ["s", 3]], [["h", 2], ["v", 1]], [["q(1)", "dv(1)", "s(1,2,1)"]], BIJ, ["equiv", "c04"], {}),
    ("symmetry ignores that a compared variable is used in the aggregate tuple", "C11", ["symmetry"], "h(N) :- N = #sum { A,X : p(A,X), p(B,X), p(C,X), A != B, A != C, B != C }.\n", [["p", 2]], [["h", 1]], [["p(1,1)", "p(2,1)", "p(3,1)"]], BIJ, ["equiv", "c04"], {}),
    ("symmetry leaves a duplicate", "C11", ["symmetry"], ":- p(A,X), p(B,X), A != B, A != B.\n", [["p", 2]], [], [["p(1,1)", "p(2,1)"]], BIJ, ["equiv", "c04"], {}),
    ("ex-lining arithmetic of an objective", "C03", ["cleanup", "unused", "symmetry", "minmax_chains", "sum_chains", "math", "inline", "projection"], "{ p(X) } :- d(X).\n:~ p(X), not r(Y) : d(Y), p(Y+1). [X+1@1,X]\n", [["d", 1], ["r", 1]], [["p", 1]], None, None, ["c03"], {}),
    ("ex-lining arithmetic of an objective", "C02", [], ":~ p(X), r(X-1). [X+1@2,X]\n", [["p", 1], ["r", 1]], [], [["p(1)", "r(0)"]], {"kind": "set", "voc": "out", "cost": True}, ["equiv"], {}),
    ("unused breaks chains of copy rules", "C09", ["unused"], "a(X) :- b(X).\nc(X) :- a(X).\nd(X) :- c(X), e(X).\n", [["b", 1], ["e", 1]], [["d", 1]], [["b(1)", "e(1)"]], SET, ["equiv"], {}),
    ("unused captures variables", "C09", ["unused"], "a(X,Y) :- e(X,Y).\nr(X0,Y0) :- a(Y0,X0), p(X0), q(Y0).\n", [["e", 2], ["p", 1], ["q", 1]], [["r", 2]], [["e(1,2)", "p(2)", "q(1)"]], SET, ["equiv", "c04"], {}),
    ("unused loses a join between body-only variables", "C09", ["unused"], "a(X,Z) :- s(h(X,Y),h(Z,Y)).\nr(X,Z) :- a(X,Z), p(X).\n", [["s", 2], ["p", 1]], [["r", 2]], [["s(h(1,1),h(2,3))", "p(1)"]], SET, ["equiv"], {"facts": "in"}),
    ("unused does not count a negated rule head", "C09", ["unused"], "{ sel(X) } :- p(X).\nr(X) :- sel(X), q(X).\nu(X) :- sel(X).\nnot u(X) :- q(X).\n", [["p", 1], ["q", 1]], [["r", 1]], [["p(a)", "q(a)"]], SET, ["equiv"], {}),
    ("unused replaces a predicate that is named in a #show", "C09", ["unused"], "a(X) :- b(X).\n#show a/1.\n", [["b", 1]], [], [["b(1)"]], {"kind": "set", "voc": "shown", "cost": False}, ["equiv"], {}),
    ("symmetry joins literals of different sign", "C11", ["symmetry"], "h(X) :- p(A,X), p(B,X), r(A), not r(B), A != B.\n", [["p", 2], ["r", 1]], [["h", 1]], [["p(1,1)", "p(2,1)", "r(2)"]], BIJ, ["equiv"], {}),
    ("symmetry overlooks compared variables", "C11", ["symmetry"], "h(X) :- p(A,X), p(B,X), A != B, 1 <= #count{Z : s(Z,A)}.\n", [["p", 2], ["s", 2]], [["h", 1]], [["p(1,2)", "p(2,1)", "p(1,1)", "p(1,3)", "s(2,3)", "s(3,3)"]], BIJ, ["equiv"], {}),
    ("symmetry captures a compared variable", "C11", ["symmetry"], "{ p(X,Y) } :- d(X), d(Y).\n:- p(A,A), p(B,A), A != B.\n", [["d", 1]], [["p", 2]], [["d(1)", "d(2)"]], BIJ, ["equiv"], {}),
    ("domain predicates ignore that a defined predicate may also be an input", "C11", ["symmetry"], "{ p(X,Y) : e(Y) } :- d(X), on.\n:- p(X,A), p(X,B), A != B.\n", [["p", 2], ["d", 1], ["e", 1], ["on", 0]], [["p", 2]], [["d(a)", "e(6)", "on", "p(c,6)", "p(c,9)"]], BIJ, ["equiv"], {}),
    ("symmetry breaks joins that are not symmetric", "C11", ["symmetry"], "{ p(X,Y) } :- d(X), d(Y).\n:- p(A,B), p(B,C), A != B, B != C.\nh :- p(A,A), p(B,C), A != B, A != C.\n", [["d", 1]], [["h", 0], ["p", 2]], [["d(1)", "d(2)", "d(3)"]], BIJ, ["equiv"], {}),
    ("domain predicates ignore that a defined predicate may also be an input", "C12", ["minmax_chains"], "{ sel(P,V) } :- skill(P,V).\nperson(1).\nskill(1,2).\nbest(P,X) :- person(P), X = #max{V : sel(P,V)}.\n", [["person", 1], ["skill", 2]], [["best", 2], ["sel", 2]], [["person(2)", "skill(2,3)"]], BIJ, ["equiv"], {}),
    ("minmax_chains replaces #min/#max results inside #sum+", "C12", ["minmax_chains"], "{ sel(P,V) } :- skill(P,V).\nperson(0).\nskill(0,0).\nbest(P,X) :- person(P), X = #min{V : sel(P,V)}, X != #sup.\ntotal(S) :- S = #sum+{V,P : best(P,V)}.\n", [["person", 1], ["skill", 2]], [["best", 2], ["sel", 2], ["total", 1]], [["person(1)", "skill(1,-2)", "skill(1,3)"]], BIJ, ["equiv"], {}),
    ("minmax_chains leaves the replaced result variable behind", "C12", ["minmax_chains"], "{ sel(P,V) } :- skill(P,V).\nperson(1).\nskill(1,2).\nbest(P,X) :- person(P), X = #max{V : sel(P,V)}.\ntotal(S) :- S = #sum{V,P : best(P,V), V > 1}.\n", [["person", 1], ["skill", 2]], [["best", 2], ["sel", 2], ["total", 1]], [[]], BIJ, ["equiv", "c04"], {}),
    ("minmax_chains replaces the wrong argument", "C12", ["minmax_chains"], "{ sel(P,V) } :- skill(P,V).\nperson(1).\nskill(1,2).\nbest(X,P) :- person(P), X = #max{V : sel(P,V)}.\ntotal(S) :- S = #sum{V,P : best(V,P)}.\nb2(X) :- person(P), X = #max{V : sel(P,V)}.\nt2(S) :- S = #sum{V : b2(V)}.\n", [["person", 1], ["skill", 2]], [["best", 2], ["sel", 2], ["total", 1], ["t2", 1]], [["person(2)", "skill(2,3)"]], BIJ, ["equiv", "c03", "c04"], {}),
    ("minmax_chains takes local variables", "C12", ["minmax_chains"], "{ sel(P,V) } :- skill(P,V).\nperson(1).\nskill(1,2).\nbest(P,X) :- person(P), X = #max{V : sel(P,V)}, good(Q) : friend(P,Q).\n", [["person", 1], ["skill", 2], ["good", 1], ["friend", 2]], [["best", 2], ["sel", 2]], [["friend(1,2)"]], BIJ, ["equiv", "c04"], {}),
    ("minmax_chains forgets the extra conditions", "C12", ["minmax_chains"], "{ sel(P,V) } :- skill(P,V).\nperson(1).\nskill(1,2).\nbest(P,X) :- person(P), flag, X = #max{V : sel(P,V)}, X != #inf.\ntotal(S) :- S = #sum{V,P : best(P,V)}.\n", [["person", 1], ["skill", 2], ["flag", 0]], [["best", 2], ["sel", 2], ["total", 1]], [[]], BIJ, ["equiv"], {}),
    ("minmax_chains gives two aggregates the same", "C12", ["minmax_chains"], "{ sel(V) } :- val(V).\nval(2).\nboth(X,Y) :- X = #max{V : sel(V)}, Y = #max{W : sel(W), W > 1}.\n", [["val", 1]], [["both", 2], ["sel", 1]], [["val(3)", "val(1)"]], BIJ, ["equiv"], {}),
    ("sum_chains rewrites #sum+", "C13", ["sum_chains"], "len(-2).\nlen(0).\nlen(3).\n{ shift(D,L) : len(L) } 1 :- day(D).\na(D,X) :- X = #sum+ { L : shift(D,L) }, day(D).\n", [["day", 1]], [["a", 2], ["shift", 2]], [["day(a)"]], BIJ, ["equiv"], {}),
    ("sum_chains accepts an at-most-one bound although", "C13", ["sum_chains"], "#sum { 1,L : shift(D,L) : len(L); -1,x : extra(D) : day(D) } <= 1 :- day(D).\na(D,X) :- X = #sum { L : shift(D,L) }, day(D).\n", [["day", 1], ["len", 1]], [["a", 2], ["shift", 2], ["extra", 1]], [["day(1)", "len(1)", "len(2)"]], BIJ, ["equiv"], {}),
    ("sum_chains derives the group", "C13", ["sum_chains"], "day(2).\nday(3).\npl(2,1).\npl(3,4).\n{ shift(D/2,L) : pl(D,L) } 1 :- day(D).\n:~ shift(G,L). [L@0,G]\n", [], [["shift", 2]], [[]], BIJ, ["equiv"], {}),
    ("sum_chains changes which tuples", "C13", ["sum_chains"], "{ shift(D,L) : len(L) } 1 :- day(D).\na(X) :- X = #sum { L : shift(D,L) }.\n:~ shift(D,L). [L@0]\n", [["day", 1], ["len", 1]], [["a", 1], ["shift", 2]], [["day(1)", "day(2)", "len(1)", "len(2)"]], BIJ, ["equiv"], {}),
    ("math loses the 'ignore negative weights'", "C14", ["math"], "a :- X = #sum+ { V-2,V : p(V) }, X < -1.\n{ sel(I,V) } :- item(I,V).\n:~ X = #sum+{V,I : sel(I,V)}. [-X@1]\n", [["p", 1], ["item", 2]], [["a", 0], ["sel", 2]], [["p(0)", "item(1,2)"]], BIJ, ["equiv"], {}),
    ("math eliminates a variable that is still used", "C14", ["math"], "{ sel(V) } :- p(V).\na :- X = #sum{V:sel(V)}, 1 <= #count{W : q(W,X)}.\n", [["p", 1], ["q", 2]], [["a", 0], ["sel", 1]], [["p(1)", "p(2)", "q(1,1)"]], BIJ, ["equiv"], {}),
    ("math loses a bound when it merges", "C14", ["math"], "{ sel(V) } :- p(V).\na :- X = #sum{V:sel(V)}, X < 4, X > 0.\nb :- X = #sum{V:sel(V)}, X != 3, X != 0.\n", [["p", 1]], [["a", 0], ["b", 0], ["sel", 1]], [["p(1)", "p(2)"]], BIJ, ["equiv"], {}),
    ("inline drops the other conditions", "C15", ["inline"], "{sel(A,Y)}:-p(A,Y).\nh(A,S):-a(A),S=#count{Y:sel(A,Y)}.\nfoo(X):-X=#sum+{S,V:h(V,S),c(V); W:t(W)}.\n", [["a", 1], ["c", 1], ["p", 2], ["t", 1]], [["foo", 1], ["sel", 2]], [["a(1)", "a(2)", "c(2)", "p(1,2)", "t(1)", "t(2)"]], SET, ["equiv"], {}),
    ("inline does not re-check the tuples", "C15", ["inline"], "{sel(A,Y)}:-p(A,Y).\nh(S):-S=#sum{Y,A:sel(A,Y)}.\nfoo(X):-X=#sum{S:h(S); W,U:t(U,W)}.\n", [["p", 2], ["t", 2]], [["foo", 1], ["sel", 2]], [["p(1,2)", "t(1,2)"]], SET, ["equiv", "c04"], {}),
    ("inline mixes #sum and #sum+", "C15", ["inline"], "{sel(A,Y)}:-p(A,Y).\nh(A,S):-a(A),S=#sum+{Y-2,Y:sel(A,Y)}.\nfoo(X):-X=#sum{S,V:h(V,S)}.\n", [["a", 1], ["p", 2]], [["foo", 1], ["sel", 2]], [["a(a)", "p(a,0)"]], SET, ["equiv"], {}),
    ("inline merges the groups", "C15", ["inline"], "{sel(A,Y)}:-p(A,Y).\nh(A,S):-a(A),S=#sum{Y:sel(A,Y)}.\nfoo(X):-X=#sum{S:h(V,S)}.\n", [["a", 1], ["p", 2]], [["foo", 1], ["sel", 2]], [["a(1)", "a(2)", "a(3)", "p(2,2)", "p(1,2)", "p(1,1)"]], SET, ["equiv"], {}),
    ("inline unfolds a helper whose head projects", "C15", ["inline"], "{sel(A,Y)}:-p(A,Y).\nh(A,S):-b(A,Z),S=#sum{Y:sel(Z,Y)}.\nfoo(X):-X=#sum{S,V:h(V,S)}.\n", [["b", 2], ["p", 2]], [["foo", 1], ["sel", 2]], [["b(v,1)", "b(v,2)", "p(1,5)", "p(1,3)", "p(2,5)"]], SET, ["equiv"], {}),
    ("inline changes the cost", "C15", ["inline"], "{sel(A,Y)}:-p(A,Y).\n:~ a(A), S=#sum+{Y:sel(A,Y)}. [S@1]\n", [["a", 1], ["p", 2]], [["sel", 2]], [["a(1)", "a(2)", "p(1,2)", "p(2,2)", "p(1,1)"]], SET, ["equiv"], {}),
    ("inline changes the cost", "C15", ["math", "inline"], ":~ f(Z); X=#count{a:a}, Y=#count{b:b}. [Z+X+Y@1]\n", [["f", 1], ["a", 0], ["b", 0]], [], [["a", "f(0)", "f(1)", "f(5)"]], SET, ["equiv"], {}),
    ("normalisation expands a pool", "C05", [], "cnt(N) :- N = { s(1;2) }.\na(X,Y) :- d(X); d(Y); X < (1;5) < Y.\n", [], [], [["s(2)", "d(0)", "d(3)", "d(7)"]], BIJ, ["equiv"], {"facts": "any", "allow_partial_in": True}),
    ("old-style aggregate with an interval", "C05", [], "cnt(N) :- N = { Y < (1..3) : s(Y) }.\n", [], [], [["s(0)"]], BIJ, ["equiv"], {"facts": "any", "allow_partial_in": True}),
    ("old-style aggregate with an anonymous variable under double negation", "C05", [], "{ s(X) } :- d(X).\ncnt(N) :- N = { not not r(X,_) : d(X) }.\n", [], [], [["d(1)", "r(1,2)"]], BIJ, ["equiv", "c04"], {"facts": "any", "allow_partial_in": True}),
    ("two boolean elements of an old-style aggregate", "C05", [], "cnt(N) :- N = { #true : s(X); #true : e(X) }.\n", [], [], [["s(1)", "e(1)"]], BIJ, ["equiv"], {"facts": "any", "allow_partial_in": True}),
    ("unused invents a predicate that collides", "C07", ["unused"], "t(X,Y) :- e(X,Y).\nr(X) :- t(X,_).\n", [["e", 2]], [["r", 1], ["t", 1]], [["e(b,a)"]], {"kind": "set", "voc": "inout", "cost": False}, ["equiv", "c07"], {}),
    ("minmax_chains and sum_chains capture source variables", "C07", ["minmax_chains"], "{ sel(X,Y) } :- d(X), e(Y).\nbest(X,L) :- d(X), L = #max { Q : sel(X,Q) }.\n", [["d", 1], ["e", 1]], [["best", 2], ["sel", 2]], [["d(b)", "e(3)"]], {"kind": "set", "voc": "inout", "cost": False}, ["equiv", "c07"], {}),
    ("auto-detection of input and output predicates misses atoms with pools", "C18", None, "h :- p(1;2).\nh(X) :- q(X), not r(X;X+1).\n#show x : s(1;2).\n", None, None, None, None, None, {"kind": "detect"}),
    ("replacing variable equalities merges the anonymous variable", "C11", ["symmetry"], "a :- X = #sum { 1,J : perm(J,_) }, job(Y), Y = _, X > 0.\n", [["perm", 2], ["job", 1]], [["a", 0]], [["perm(1,2)", "job(3)"]], BIJ, ["equiv"], {}),
    ("replace_assignments inlines equalities with the anonymous variable", "C10", ["duplication"], ":~ left(X); X = _; mid(Y,W); Z = W; right(Z); on; ready. [1@1,X,Z]\ngo :- on; ready; start.\n", [["left", 1], ["mid", 2], ["right", 1], ["on", 0], ["ready", 0], ["start", 0]], [["go", 0]], [["left(1)", "mid(1,2)", "right(2)", "on", "ready"]], BIJ, ["equiv", "c04"], {}),
    ("domain analysis crashes on choice or disjunction elements", "C03", ["symmetry"], "a(X) ; X > 1 :- d(X).\n{ X < 2 : d(X) }.\n", [["d", 1]], [["a", 1]], None, None, ["c03"], {}),
    ("minmax_chains crashes on a #sum element with an empty tuple", "C03", ["minmax_chains"], "a(S) :- S = #sum { : d(X) }.\n", [["d", 1]], [["a", 1]], None, None, ["c03"], {}),
    ("math crashes on a modulo by the constant zero", "C03", ["math"], "b(Y) :- d(X), Y = X \\ 0.\n", [["d", 1]], [["b", 1]], None, None, ["c03"], {}),
    ("minmax_chains makes the result variable a group variable", "C02", ["minmax_chains"], "{ sel(P,V) } :- skill(P,V).\n:~ grp(P); X = #max { V : sel(P,V) }; skill(P,X). [X@1,P]\n", [["grp", 1], ["skill", 2]], [["sel", 2]], [["grp(b)", "skill(b,3)"]], {"kind": "set", "voc": "out", "cost": True}, ["equiv"], {}),
    ("min/max results behind a double negation", "C03", ["minmax_chains"], "{ sel(P,V) } :- skill(P,V).\nbest(P,X) :- grp(P); X = #max { V: sel(P,V) }.\n:~ not not best(P,X); skill(P,X). [X@1,P]\n", [["grp", 1], ["skill", 2]], [["sel", 2]], None, None, ["c03"], {}),
    ("sum_chains leaves aggregates alone in statements that use the variable __PREV", "C07", ["sum_chains"], "1 >= { shift(G0,P): len(P) } :- day(G0).\na(__PREV) :- __PREV = #sum { N,f(G0): shift(G0,N); B,g(P): pl(P,B) }.\n", [["day", 1], ["len", 1], ["pl", 2]], [["a", 1], ["shift", 2]], [["day(1)", "len(1)", "len(2)", "pl(1,1)"]], {"kind": "set", "voc": "inout", "cost": False}, ["equiv", "c07"], {}),
    ("minmax_chains keeps the rule when a moved literal uses a variable bound by a literal that stays", "C12", ["minmax_chains"], "task(T) :- t(T).\n{ sel(L,V) } :- skill(L,V).\nlvl((0..3)).\nbest(L,X) :- lvl(T); X = #max { V: sel(L,V) }; L = #sum { T,T: task(T) }.\n", [["skill", 2], ["t", 1]], [["best", 2], ["lvl", 1], ["sel", 2], ["task", 1]], [["skill(2,1)", "t(2)"]], BIJ, ["equiv"], {}),
    ("minmax_chains keeps the rule when a group variable is not bound by the moved literals", "C04", ["minmax_chains"], "{ sel(P,V) } :- skill(P,V).\nperson(1).\nskill(1,2).\nskill(1,4).\nres(P,M) :- person(P); M = #max { V: sel(P,V) }; ok(P,AUX): cand(V).\n", [["cand", 1], ["ok", 2]], [["res", 2], ["sel", 2]], [[]], BIJ, ["equiv", "c04"], {}),
    ("sum_chains leaves atoms alone whose group argument contains an anonymous variable inside a term", "C04", ["sum_chains"], "1 >= { shift(D,L): len(L) } :- day(D).\n:~ shift((_+0),L); day(D). [L@0,D]\n", [["day", 1], ["len", 1]], [["shift", 2]], [["day(1)", "len(2)"]], {"kind": "set", "voc": "out", "cost": True}, ["equiv", "c04"], {}),
    ("minmax_chains requires the moved literals themselves to bind the group variables", "C04", ["minmax_chains"], "{ sel(P,V) } :- skill(P,V).\nperson(1).\nskill(1,2).\nskill(1,4).\nres(P,M) :- person(P); M = #max { V: sel(P,V) }; ok(V,X0): cand(X0).\n", [["cand", 1], ["ok", 2]], [["res", 2], ["sel", 2]], [[]], BIJ, ["equiv", "c04"], {}),
    ("math leaves comparisons and aggregate guards with an anonymous variable alone", "C14", ["math"], "{ perm(J,K) } :- dp(J,K).\n:- X = #count { J: perm(J,_) }; _ = #count { J: job(J) }; not _ != X.\n", [["dp", 2], ["job", 1]], [["perm", 2]], [["job(1)", "dp(1,3)", "dp(5,-1)"]], BIJ, ["equiv"], {}),
    ("no domain for a head element whose variable is also a local variable of a body aggregate", "C20", ["symmetry", "minmax_chains", "sum_chains"], "1 >= { p(G,V): d(W,V) } :- g(G); 1 <= #count { W: d(G,W) }.\n:~ p(G,V). [V@1,G]\n", [["d", 2], ["g", 1]], [["p", 2]], [["d(5,5)", "d(2,2)", "d(5,1)", "g(1)", "g(-1)", "g(5)", "g(2)"]], None, ["c20"], {}),
    ("RuleDependency counts occurrences in rule heads that derive nothing as uses", "C15", ["inline"], "{ sel(A,Y) } :- p(A,Y).\nh(A,S) :- a(A); S = #min { Y: sel(A,Y) }.\nnot h(A,S) :- c(A,S).\nlow(V) :- h(V,S); S < C; C = #count { W: t(V,W) }.\n", [["a", 1], ["c", 2], ["p", 2], ["t", 2]], [["low", 1], ["sel", 2]], [["a(a)", "c(a,9)", "p(a,9)", "t(a,7)"]], SET, ["equiv"], {}),
    ("RuleDependency counts occurrences in rule heads that derive nothing as uses", "C15", ["inline"], "{ sel(A,Y) } :- p(A,Y).\nh(A,S) :- a(A); S = #sum { Y: sel(A,Y) }.\nfoo(X) :- X = #sum { S,V: h(V,S) }.\n{ x(A): h(A,S), S > 1 } :- a(A).\n", [["a", 1], ["p", 2]], [["foo", 1], ["sel", 2], ["x", 1]], [["a(1)", "p(1,2)", "p(1,3)"]], SET, ["equiv"], {}),
    ("inline pads the tuples of every further unfolded objective beyond the ones created before", "C02", ["inline"], "{ p(X,W) } :- pp(X,W).\n{ q(X,W) } :- qq(X,W).\n:~ C = #sum { W,X : p(X,W) }. [C@1]\n:~ d(Y), C = #sum { W : q(Y,W) }. [C@1,Y]\n", [["pp", 2], ["qq", 2], ["d", 1]], [["p", 2], ["q", 2]], [["pp(1,5)", "qq(1,5)", "d(1)"]], {"kind": "set", "voc": "out", "cost": True}, ["equiv"], {}),
    ("sum_chains needs the group variables as such in the tuple, not inside arithmetic", "C13", ["sum_chains"], "{ p(G,V) : d(G,V) } 1 :- g(G).\nt(X) :- X = #sum { V,G/2 : p(G,V) }.\n", [["d", 2], ["g", 1]], [["p", 2], ["t", 1]], [["d(2,5)", "d(3,5)", "g(2)", "g(3)"]], BIJ, ["equiv"], {}),
    ("sum_chains needs the group variables as such in the tuple, not inside arithmetic", "C13", ["sum_chains"], "{ p(G,V) : d(G,V) } 1 :- g(G).\n:~ p(G,V). [V@1,G/2]\n", [["d", 2], ["g", 1]], [["p", 2]], [["d(2,5)", "d(3,5)", "g(2)", "g(3)"]], {"kind": "set", "voc": "out", "cost": True}, ["equiv"], {}),
    ("sum_chains leaves an element alone whose weight variable is bound outside of the aggregate", "C13", ["sum_chains"], "{ p(G,V) : d(G,V) } 1 :- g(G).\nt(X) :- X = #sum { V,G : p(G,V) }, q(V).\n", [["d", 2], ["g", 1], ["q", 1]], [["p", 2], ["t", 1]], [["d(1,5)", "d(2,5)", "d(1,3)", "g(1)", "g(2)", "q(5)"]], BIJ, ["equiv"], {}),
    ("math only solves a relation for a variable when no solutions are lost by the division", "C14", ["math"], "a(X,Y) :- b(X); c(Y); Z = (Z*X); Z = (Y*Y).\n", [["b", 1], ["c", 1]], [["a", 2]], [["b(3)", "b(1)", "c(0)"]], BIJ, ["equiv"], {}),
]


def main() -> None:
    log = subprocess.run(["git", "-C", "/repo", "log", "--format=%h %s"], capture_output=True, text=True, check=True).stdout.splitlines()
    commits = {}
    for line in log:
        h, _, subj = line.partition(" ")
        if subj.startswith("fix: "):
            commits[subj[5:]] = h
    path = "/verif/known_findings.json"
    data = json.load(open(path))
    data["findings"] = [f for f in data["findings"] if f.get("status") != "fixed"]
    by_commit: dict = {}
    for prefix, prop, traits, program, inn, out, insts, mode, checks, extra in T:
        match = [(s, h) for s, h in commits.items() if s.startswith(prefix)]
        assert len(match) == 1, (prefix, match)
        subj, h = match[0]
        entry = by_commit.get(h)
        if entry is None:
            entry = {"id": f"FIXED-{h}", "status": "fixed", "commit": h, "properties": [], "what": subj, "record": "", "witnesses": {}}
            by_commit[h] = entry
            data["findings"].append(entry)
        if prop not in entry["properties"]:
            entry["properties"].append(prop)
        if extra.get("kind") == "detect":
            case = {"kind": "detect", "program": program}
        else:
            case = {"kind": "opt", "program": program, "traits": traits, "in": inn, "out": out, "mode": mode, "checks": checks, "n_inst": 0 if insts is not None else 0, "inst_seed": 0}
            if insts is not None:
                case["instances"] = insts
            case.update(extra)
        entry["witnesses"].setdefault(prop, []).append(case)
        entry["record"] = f"fixed: property={','.join(entry['properties'])} {h} {subj}"
    missing = [s for s in commits if not any(s.startswith(t[0]) for t in T)]
    # fixes whose effect has no witness of its own: (properties, why)
    NOWITNESS = {
        "keep static input predicates usable as their own domain": (["C20", "C12"], "follow-up to 'input-aware domains': restores domains for static inputs, no violation of its own"),
        "replace_assignments does not substitute 'X = t' when X occurs in t": (["C10"], "first of two sites of KF-inline-occurs; the same program is still rewritten by postprocess (pinned), so the end-to-end witness stays a known finding; seen as step-not-equivalent at 'duplication' before the fix"),
    }
    for subj in missing:
        if subj in NOWITNESS:
            props, why = NOWITNESS[subj]
            h = commits[subj]
            data["findings"].append({"id": f"FIXED-{h}", "status": "fixed", "commit": h, "properties": props, "what": subj, "note": why, "record": f"fixed: property={','.join(props)} {h} {subj}", "witnesses": {}})
    missing = [s for s in missing if s not in NOWITNESS]
    json.dump(data, open(path, "w"), indent=1)
    print(len(by_commit), "fixed entries;", "commits without witness:", missing)


if __name__ == "__main__":
    main()
