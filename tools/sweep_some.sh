#!/bin/bash
# tools/sweep_some.sh TIER SEED PROPS... : triage sweep of some properties (used with `vp run`)
here=$(cd "$(dirname "$0")/.." && pwd)
tier=$1; s=$2; shift; shift
mkdir -p "$here/triage"
"$here/vf" setup >/dev/null
for p in "$@"; do
  VERIF_SEED=$s VF_TRIAGE=1 VF_TRIAGE_N=2 "$here/vf" $tier $p > "$here/triage/$p.$tier.$s.txt" 2>&1
  echo "$p $tier seed $s exit $?: $(grep -E "^TRIAGE|^$p $tier" "$here/triage/$p.$tier.$s.txt" | tr '\n' ' ' | cut -c1-330)"
done
