#!/bin/bash
# tools/sweep_all.sh TIER SEEDS... : triage sweep of every property (used with `vp run`); summaries on stdout, details in ./triage/
here=$(cd "$(dirname "$0")/.." && pwd)
tier=${1:-quick}; shift
seeds=${@:-0}
mkdir -p "$here/triage"
"$here/vf" setup >/dev/null
for s in $seeds; do
  for p in C01 C02 C03 C04 C05 C06 C07 C08 C09 C10 C11 C12 C13 C14 C15 C16 C17 C18 C19 C20; do
    VERIF_SEED=$s VF_TRIAGE=1 VF_TRIAGE_N=2 "$here/vf" $tier $p > "$here/triage/$p.$tier.$s.txt" 2>&1
    echo "$p $tier seed $s exit $?: $(grep -E "^TRIAGE|^$p $tier" "$here/triage/$p.$tier.$s.txt" | tr '\n' ' ' | cut -c1-330)"
  done
done
